# -*- coding: utf-8 -*-
"""
C01 (lexical part) \u2014 the lexer: acceptance, tokens, error contract.

* extract: IGNORED_CHARS / SYMBOLS / QUOTED_CHARS and the character sets the lexer tests membership in
  \u2192 lean/PyGqlModel/Generated/LexTables.lean (theorems in Props/C01_lex.lean are stated about them).
* correspondence: Lean `lexAll` (driver op "lex") vs `py_gql.lang.lexer.Lexer` on every stream.
* direct oracles on the real code (independent of the model):
    O1 error contract: only GraphQLSyntaxError, 0 <= position <= len(text), str()/.highlighted/.to_dict() succeed;
    O2 the specification's recognisers (Spec/Lexical.lean through the driver) vs the real lexer on single lexemes;
    O3 rendering a token sequence with different ignored runs gives the same kinds/values (and the expected ones);
    O4 UTF-8 `bytes` input lexes like the `str`.
"""
import ast
import itertools
import json
import re

from common import REPO

PROPERTY = "C01"
PART = "C01_lex"
RULE = ("token sequences (random lexemes per token class) rendered with random ignored runs; character mutants and all "
        "prefixes of those, of kitchen-sink fixtures and of windows of the big fixtures; a hand-written lexical edge list "
        "(non-ASCII digits, exponents, truncated escapes, BOM, Unicode blanks, surrogates, controls, bytes); ALL strings of "
        "length <= 3 (quick) / 4 (thorough) over 19 interesting characters. distinct = distinct text; non-trivial = "
        "accepted with >= 2 real tokens, or rejected after at least one real token, or a single-lexeme spec/impl comparison")
ASSUMPTIONS = [
    "the lexer reads its source only forward, so (source, _position) is modelled as (total length, unread suffix)",
    "error positions of rejected texts are not compared (only 0 <= position <= len and that rendering succeeds)",
    "bytes input is compared only for texts that have a UTF-8 encoding (no lone surrogates)",
    "bytes sources that are not valid UTF-8 must be rejected with GraphQLSyntaxError (position = character offset of the first "
    "undecodable byte inside the U+FFFD-replaced text, fix C01-B8); strict UTF-8 decoding is modelled (Utf8.lean: decode_encode, "
    "parse_bytes_eq_text) and compared with Lexer.__init__ and with bytes.decode; the U+FFFD-replaced text of the error is only exercised",
    "`\"\"` [lookahead != `\"`] (three quotes always open a block string) and IntegerPart `0` [lookahead != Digit] are readings of the "
    "June-2018 lexical grammar pinned by the suite; Spec/LexicalReadings.lean names them (EmptyStringLookahead, ZeroLookahead) - "
    "known findings LA3, LA4",
    "optional `{...}` blocks of type-system definitions are read greedily ([lookahead != {], as graphql-js and the 2021 text): the literal "
    "June-2018 grammar is ambiguous there (`type A {b}`); Spec/Grammar.lean takes the greedy reading explicitly (blockV / nla) - known finding LA2",
    "source types: the documented signature is Union[str, bytes]; instances of subclasses of str / bytes are in scope (duck typing), "
    "bytearray / memoryview are not (today: TypeError) - their outcome is only recorded in the evidence",
]
TRUSTED = ["table extraction in corr/C01_lex.py (live module values cross-checked against the source text with ast)"]

LEXER = REPO / "src/py_gql/lang/lexer.py"


# ---------------------------------------------------------------------------------------------
# extraction

def _lean_nat_list(xs):
    return "[" + ", ".join(str(x) for x in xs) + "]"


def extract(ctx):
    import importlib
    import py_gql.lang.lexer as lexer
    importlib.reload(lexer)
    src = LEXER.read_text()
    tree = ast.parse(src)
    consts = {}
    for n in tree.body:
        if isinstance(n, ast.Assign) and len(n.targets) == 1 and isinstance(n.targets[0], ast.Name):
            consts[n.targets[0].id] = n.value
    for name in ("IGNORED_CHARS", "SYMBOLS", "QUOTED_CHARS"):
        if name not in consts:
            raise ValueError("lexer.py no longer defines %s at module level" % name)
    ign = consts["IGNORED_CHARS"]
    if not (isinstance(ign, ast.Constant) and isinstance(ign.value, str) and ign.value == lexer.IGNORED_CHARS):
        raise ValueError("IGNORED_CHARS is not a plain string constant equal to the live value")
    q = consts["QUOTED_CHARS"]
    if not (isinstance(q, ast.Dict) and all(isinstance(k, ast.Constant) and isinstance(v, ast.Constant) for k, v in zip(q.keys, q.values))):
        raise ValueError("QUOTED_CHARS is not a literal dict")
    qsrc = [(k.value, v.value) for k, v in zip(q.keys, q.values)]
    if qsrc != list(lexer.QUOTED_CHARS.items()) or any(len(k) != 1 or len(v) != 1 for k, v in qsrc):
        raise ValueError("QUOTED_CHARS literal differs from the live value")
    sy = consts["SYMBOLS"]
    if not (isinstance(sy, ast.DictComp) and isinstance(sy.generators[0].iter, ast.Tuple)):
        raise ValueError("SYMBOLS is not a dict comprehension over a tuple of token classes")
    sy_names = [e.id for e in sy.generators[0].iter.elts]
    live = [(k, v.__name__) for k, v in lexer.SYMBOLS.items()]
    if [n for _, n in live] != sy_names or any(len(k) != 1 for k, _ in live):
        raise ValueError("SYMBOLS comprehension differs from the live value")
    # character classes: the lexer must test membership in explicit ASCII sets (fix C01-L1-L2-L4)
    bad = sorted({n.attr for n in ast.walk(tree) if isinstance(n, ast.Attribute)
                  and n.attr in ("isdigit", "isalnum", "isalpha", "isnumeric", "isdecimal", "isspace")})
    if bad:
        raise ValueError("lexer.py classifies characters with str.%s() (accepts non-ASCII digits/letters): "
                         "proposed fix C01-L1-L2-L4 not applied" % "()/str.".join(bad))
    sets = {}
    for nm in ("digits", "hexdigits", "ascii_letters"):
        v = getattr(lexer, nm, None)
        if not isinstance(v, str):
            raise ValueError("lexer.py does not import string.%s" % nm)
        sets[nm] = v
    out = ["/- GENERATED on every run by harness/corr/C01_lex.py from src/py_gql/lang/lexer.py \u2014 do not edit. -/",
           "namespace PyGql.Generated.LexTables", "",
           "/-- `IGNORED_CHARS` (code points, source order) -/",
           "def ignoredChars : List Nat := " + _lean_nat_list(ord(c) for c in lexer.IGNORED_CHARS), "",
           "/-- `SYMBOLS`: character \u2192 token class name -/",
           "def symbols : List (Nat \u00d7 String) := [",
           ",\n".join('  (%d, "%s")' % (ord(k), n) for k, n in live), "]", "",
           "/-- `QUOTED_CHARS`: escape character \u2192 decoded character -/",
           "def quotedChars : List (Nat \u00d7 Nat) := [" + ", ".join("(%d, %d)" % (ord(k), ord(v)) for k, v in qsrc) + "]", "",
           "/-- the character sets the lexer tests membership in (`string.digits`, `string.hexdigits`, `string.ascii_letters`) -/",
           "def digits : List Nat := " + _lean_nat_list(ord(c) for c in sets["digits"]),
           "def hexdigits : List Nat := " + _lean_nat_list(ord(c) for c in sets["hexdigits"]),
           "def asciiLetters : List Nat := " + _lean_nat_list(ord(c) for c in sets["ascii_letters"]), "",
           "end PyGql.Generated.LexTables", ""]
    return {"PyGqlModel/Generated/LexTables.lean": "\n".join(out)}


# ---------------------------------------------------------------------------------------------
# the real code

def cps(s):
    return [ord(c) for c in s]


def from_cps(a):
    return "".join(chr(x) for x in a)


def real_lex(text):
    """('ok', [(class, start, end, value)]) | ('syntax', position, render problem or None) | ('internal', Class)."""
    from py_gql.lang.lexer import Lexer
    from py_gql.exc import GraphQLSyntaxError
    try:
        return ("ok", [(type(t).__name__, t.start, t.end, t.value) for t in Lexer(text)])
    except GraphQLSyntaxError as e:
        problem = None
        if str(getattr(e, "message", "") or "") == "":
            problem = "message-empty"       # "can always be rendered as a message": an empty message is not one
        for what, fn in (("str", lambda: str(e)), ("highlighted", lambda: e.highlighted), ("to_dict", lambda: e.to_dict())):
            if problem:
                break
            try:
                r = fn()
                if what == "to_dict" and not (isinstance(r, dict) and isinstance(r.get("message"), str) and r.get("locations")):
                    problem = "to_dict:malformed"
                    break
            except Exception as x:  # noqa
                problem = "%s:%s" % (what, type(x).__name__)
                break
        return ("syntax", e.position, problem)
    except RecursionError:
        return ("internal", "RecursionError")
    except Exception as x:  # noqa
        return ("internal", type(x).__name__)


def char_class(c):
    o = ord(c)
    if c == "0":
        return "0"
    if c in "123456789":
        return "d"
    if c in "eE":
        return "e"
    if c == "u":
        return "u"
    if c in "abcdefABCDEF":
        return "h"
    if c.isascii() and c.isalpha():
        return "a"
    if c == "_":
        return "_"
    if c == '"':
        return "q"
    if c == "\\":
        return "b"
    if c in ".-+#,":
        return c
    if c in " \t":
        return "s"
    if c == "\n":
        return "n"
    if c == "\r":
        return "r"
    if c == "\ufeff":
        return "B"
    if o < 32:
        return "c"
    if 0xD800 <= o < 0xE000:
        return "S"
    if o < 128:
        return "p"
    if c.isdigit() or c.isnumeric():
        return "N"
    if c.isspace() or c in "\x85\u2028\u2029":
        return "W"
    if c.isalpha():
        return "L"
    if o > 0xFFFF:
        return "A"
    return "U"


def classes(text, cap=12):
    """run-length-free class string of a (shrunk) text — the structural feature used in signatures."""
    out = []
    for c in text:
        k = char_class(c)
        if not out or out[-1] != k:
            out.append(k)
    return "".join(out)[:cap]


def shrink(text, pred, budget=400):
    """greedy ddmin on characters: smallest text (found) on which pred still holds."""
    cur = text
    n = 2
    steps = 0
    while len(cur) >= 2 and steps < budget:
        chunk = max(1, len(cur) // n)
        reduced = False
        for i in range(0, len(cur), chunk):
            cand = cur[:i] + cur[i + chunk:]
            steps += 1
            try:
                ok = cand != cur and pred(cand)
            except Exception:  # noqa
                ok = False
            if ok:
                cur = cand
                n = max(n - 1, 2)
                reduced = True
                break
            if steps >= budget:
                break
        if not reduced:
            if chunk == 1:
                break
            n = min(len(cur), n * 2)
    return cur


ESC_AT_EOF = re.compile(r'\\(u[0-9A-Fa-f]{0,3})?\Z')


def eof_feature(text):
    return "escape-at-eof" if ESC_AT_EOF.search(text) else "other"


# ---------------------------------------------------------------------------------------------
# the exact class of L6 (Props/C01_errors_iff.lean, `OpenEscape`), decided on the TEXT by an independent scanner of the
# June-2018 lexical grammar (with the pinned readings LA1, LA3, LA4): complete tokens and ignored runs, then a quote that
# does not open a block string, complete string characters, and an escape sequence cut off by the end of the text.

_PUNCT = set("!$()[]{}:=@|&")
_HEX = set("0123456789abcdefABCDEF")
_DIG = set("0123456789")
_NAME0 = set("abcdefghijklmnopqrstuvwxyzABCDEFGHIJKLMNOPQRSTUVWXYZ_")


def open_escape(text):
    """True iff `text` ends inside an open quoted string with a truncated escape (the text-level predicate OpenEscape)."""
    i, n = 0, len(text)
    while i < n:
        c = text[i]
        if c in "\ufeff\t \n\r,":
            i += 1
        elif c == "#":
            i += 1
            while i < n and (text[i] >= " " or text[i] == "\t") and text[i] not in "\n\r":
                i += 1
        elif c in _PUNCT:
            i += 1
        elif c == ".":
            if text[i:i + 3] != "...":
                return False
            i += 3
        elif text[i:i + 3] == '"""':
            i += 3
            while True:
                if i >= n:
                    return False
                if text[i:i + 3] == '"""':
                    i += 3
                    break
                if text[i:i + 4] == '\\"""':
                    i += 4
                elif text[i] >= " " or text[i] in "\t\n\r":
                    i += 1
                else:
                    return False
        elif c == '"':
            i += 1
            while True:
                if i >= n:
                    return False                      # unterminated, but not inside an escape: reported at len
                d = text[i]
                if d == '"':
                    i += 1
                    break
                if d == "\\":
                    if i + 1 >= n:
                        return True                   # `\` then the end
                    e = text[i + 1]
                    if e in '"\\/bfnrt':
                        i += 2
                    elif e == "u":
                        hs = text[i + 2:i + 6]
                        if len(hs) < 4:
                            return all(h in _HEX for h in hs)      # `\u` + 0..3 hex digits then the end
                        if not all(h in _HEX for h in hs):
                            return False
                        i += 6
                    else:
                        return False
                elif d in "\n\r" or not (d >= " " or d == "\t"):
                    return False
                else:
                    i += 1
        elif c == "-" or c in _DIG:
            if c == "-":
                i += 1
                if i >= n or text[i] not in _DIG:
                    return False
            if text[i] == "0":
                i += 1
                if i < n and text[i] in _DIG:
                    return False
            else:
                while i < n and text[i] in _DIG:
                    i += 1
            if i < n and text[i] == ".":
                i += 1
                if i >= n or text[i] not in _DIG:
                    return False
                while i < n and text[i] in _DIG:
                    i += 1
            if i < n and text[i] in "eE":
                i += 1
                if i < n and text[i] in "+-":
                    i += 1
                if i >= n or text[i] not in _DIG:
                    return False
                while i < n and text[i] in _DIG:
                    i += 1
            if i < n and text[i] in _NAME0:
                return False
        elif c in _NAME0:
            while i < n and (text[i] in _NAME0 or text[i] in _DIG):
                i += 1
        else:
            return False
    return False


def oracle_beyond_end(ctx, t, r):
    """error position = len + 1  <=>  OpenEscape(text)   (theorem error_position_iff_open_escape)"""
    def odd(x):
        q = real_lex(x)
        return q[0] == "syntax" and isinstance(q[1], int) and q[1] > len(x) and not open_escape(x)
    if isinstance(r[1], int) and r[1] <= len(t) and open_escape(t):
        # the pinned value len+1 is no longer reported for a member of the class: the PROPERTY is not violated by that (it asks
        # for positions within the text); only the model's pinned position went stale - recorded, never a failure
        ctx.stat("beyond-end:open-escape-reported-within")
        if not _reported.get("l6-stale"):
            _reported["l6-stale"] = 1
            ctx.notes.append("C01_lex: a text of the OpenEscape class is reported WITHIN the text (L6 no longer reproduces on "
                             "this tree; the model keeps the pinned len+1)")
        return
    if not odd(t):
        ctx.stat("beyond-end:%s" % ("open-escape" if r[1] == len(t) + 1 else "within"))
        return
    t2 = shrink(t, odd)
    q = real_lex(t2)
    ctx.fail("position-beyond-end-outside-open-escape:%s" % classes(t2),
             "the lexer reports a position beyond the end of a text that does NOT end inside an open quoted string with a "
             "truncated escape (position %r, len %d): outside the exact class of finding L6" % (q[1], len(t2)),
             {"part": PART, "kind": "lex", "text": cps(t2)})


# ---------------------------------------------------------------------------------------------
# oracle O1 + correspondence on one batch of texts

def check_texts(ctx, texts, stream, compare_model=True, error_contract=True):
    """O1 on the real lexer for every text; correspondence with the model; returns list of real results."""
    texts = list(texts)
    reals = [real_lex(t) for t in texts]
    model = None
    if compare_model and ctx.model_ok and texts:
        model = ctx.driver.ask([{"op": "lex", "text": cps(t)} for t in texts])
    for i, (t, r) in enumerate(zip(texts, reals)):
        ctx.count()
        ctx.stat("%s:%s" % (stream, r[0]))
        if r[0] == "ok":
            if len(r[1]) >= 4:
                ctx.nontrivial(("lex", t))
            ctx.stat("tokens:%s" % ("1-2" if len(r[1]) <= 4 else "3-9" if len(r[1]) <= 11 else "10+"))
        elif r[0] == "syntax":
            prefix_ok = real_prefix_tokens(t)
            if prefix_ok >= 1:
                ctx.nontrivial(("lexerr", t))
            if error_contract:
                oracle_error_contract(ctx, t, r)
                oracle_beyond_end(ctx, t, r)
        else:
            t2 = shrink(t, lambda x: real_lex(x) == r)
            ctx.fail("internal:%s:%s" % (r[1], classes(t2)), "lexer raises %s instead of GraphQLSyntaxError" % r[1],
                     {"part": PART, "kind": "lex", "text": cps(t2)})
        if model is not None:
            compare_with_model(ctx, t, r, model[i])
    return reals


def real_prefix_tokens(text):
    """number of real (non-SOF) tokens the real lexer produces before failing."""
    from py_gql.lang.lexer import Lexer
    n = -1
    try:
        for _ in Lexer(text):
            n += 1
    except Exception:  # noqa
        pass
    return n


def oracle_error_contract(ctx, t, r):
    _, pos, problem = r
    if not (isinstance(pos, int) and 0 <= pos <= len(t)):
        t2 = shrink(t, lambda x: (lambda q: q[0] == "syntax" and not (0 <= q[1] <= len(x)))(real_lex(x)))
        feat = eof_feature(t2)
        p2 = real_lex(t2)[1]
        if feat == "escape-at-eof" and p2 != len(t2) + 1:
            # the pinned finding L6 (and `error_in_range_partial`) is EXACTLY len + 1: anything else is another defect
            feat = "escape-at-eof:not-len-plus-1"
        ctx.fail("position-out-of-range:%s" % feat,
                 "syntax error position %r is outside the text (len %d)" % (real_lex(t2)[1], len(t2)),
                 {"part": PART, "kind": "lex", "text": cps(t2)})
    if problem:
        t2 = shrink(t, lambda x: (lambda q: q[0] == "syntax" and q[2] == problem)(real_lex(x)))
        ctx.fail("render-raises:%s:%s" % (problem, eof_feature(t2)),
                 "rendering the syntax error raises (%s)" % problem,
                 {"part": PART, "kind": "lex", "text": cps(t2)})


def model_result(m):
    if m.get("ok"):
        return ("ok", [(x["k"], x["s"], x["e"], from_cps(x["v"])) for x in m["tokens"]])
    return ("syntax", m.get("pos"), None if (m.get("str_ok") and m.get("dict") is not None) else "model-render")


def compare_with_model(ctx, t, r, m):
    mr = model_result(m)
    same = (r[0] == mr[0]) and (r[0] != "ok" or r[1] == mr[1])
    if r[0] == "internal":
        same = False
    if same:
        return
    _reported["corr"] = _reported.get("corr", 0) + 1
    if _reported["corr"] > 6:
        ctx.fail("corr:lex:unshrunk", "model lexAll and Lexer differ (further cases, not shrunk)",
                 {"part": PART, "kind": "lex", "text": cps(t)}, kind="correspondence")
        return

    def differs(x):
        rr = real_lex(x)
        mm = model_result(ctx.driver.ask([{"op": "lex", "text": cps(x)}])[0])
        return not ((rr[0] == mm[0]) and (rr[0] != "ok" or rr[1] == mm[1]))
    t2 = shrink(t, differs, budget=60)
    rr = real_lex(t2)
    mm = model_result(ctx.driver.ask([{"op": "lex", "text": cps(t2)}])[0])
    ctx.fail("corr:lex:%s" % classes(t2), "model lexAll and Lexer differ",
             {"part": PART, "kind": "lex", "text": cps(t2), "impl": repr(rr)[:300], "model": repr(mm)[:300]}, kind="correspondence")
    # failing-input search for the property itself: does the specification side with the model?
    oracle_single_lexemes(ctx, [t2], "shrunk-disagreement")
    for tok in (rr[1] if rr[0] == "ok" else []):
        oracle_single_lexemes(ctx, [t2[tok[1]:tok[2]]], "shrunk-disagreement")


# ---------------------------------------------------------------------------------------------
# oracle O2: specification recognisers vs the real lexer on complete lexemes

KIND_OF_SPEC = (("int", "Integer"), ("float", "Float"), ("name", "Name"))
REAL_KINDS = ("Integer", "Float", "Name", "String", "BlockString")
_reported = {}


def lexeme_verdict(l, sp):
    """None if the real lexer and the specification agree on the complete lexeme l, else (failure, kind, what, extra)."""
    r = real_lex(l)
    single = None
    if r[0] == "ok" and len(r[1]) == 3 and r[1][1][1] == 0 and r[1][1][2] == len(l):
        single = r[1][1]
    spec_kind, spec_value = None, None
    for key, cls in KIND_OF_SPEC:
        if sp[key]:
            spec_kind, spec_value = cls, l
    if sp["string"] is not None:
        spec_kind, spec_value = "String", from_cps(sp["string"])
    if sp["block"] is not None:
        spec_kind, spec_value = "BlockString", from_cps(sp["block"])
    impl_kind = single[0] if single and single[0] in REAL_KINDS else None
    if spec_kind and not impl_kind:
        return ("spec-accepts-impl-rejects", spec_kind, "the grammar derives this lexeme as one %s but the lexer does not produce that token" % spec_kind, {"impl": repr(r)[:200]}, spec_kind)
    if impl_kind and not spec_kind:
        return ("impl-accepts-spec-rejects", impl_kind, "the lexer produces one %s for a text the grammar does not derive as such" % impl_kind, {"impl": repr(r)[:200]}, spec_kind)
    if impl_kind and spec_kind:
        if impl_kind != spec_kind:
            return ("lexeme-kind", "%s-vs-%s" % (impl_kind, spec_kind), "token class differs from the grammar's", {}, spec_kind)
        if single[3] != spec_value:
            return ("lexeme-value", impl_kind, "decoded token value differs from the specification's", {"impl": cps(single[3]), "spec": cps(spec_value)}, spec_kind)
    return (None, None, None, None, spec_kind)


def oracle_single_lexemes(ctx, lexemes, stream, part=PART):
    lexemes = [l for l in lexemes if l]
    if not (ctx.model_ok and lexemes):
        return
    spec = ctx.driver.ask([{"op": "spec_lexeme", "text": cps(l)} for l in lexemes])
    for l, sp in zip(lexemes, spec):
        ctx.count()
        ctx.nontrivial(("lexeme", l))
        v = lexeme_verdict(l, sp)
        ctx.stat("lexeme:%s:%s" % (stream, v[4] or "none"))
        if v[0] is None:
            continue
        key = (v[0], v[1])
        _reported[key] = _reported.get(key, 0) + 1
        if _reported[key] > 4:
            ctx.stat("lexeme-failures-not-shrunk:%s:%s" % key)
            continue

        def same(x):
            if not x:
                return False
            w = lexeme_verdict(x, ctx.driver.ask([{"op": "spec_lexeme", "text": cps(x)}])[0])
            return (w[0], w[1]) == key
        l2 = shrink(l, same, budget=40)
        w = lexeme_verdict(l2, ctx.driver.ask([{"op": "spec_lexeme", "text": cps(l2)}])[0])
        detail = {"part": part, "kind": "lexeme", "text": cps(l2)}
        detail.update(w[3] or {})
        ctx.fail("%s:%s:%s" % (v[0], v[1], classes(l2)), v[2], detail)


# ---------------------------------------------------------------------------------------------
# generators

PUNCT = ["!", "$", "(", ")", "[", "]", "{", "}", ":", "=", "@", "|", "&", "..."]
PUNCT_CLASS = {"!": "ExclamationMark", "$": "Dollar", "(": "ParenOpen", ")": "ParenClose", "[": "BracketOpen",
               "]": "BracketClose", "{": "CurlyOpen", "}": "CurlyClose", ":": "Colon", "=": "Equals", "@": "At",
               "|": "Pipe", "&": "Ampersand", "...": "Ellip"}
NAME_START = "_abcdefghijklmnopqrstuvwxyzABCDEFGHIJKLMNOPQRSTUVWXYZ"
NAME_CONT = NAME_START + "0123456789"
STR_CHARS = " !#$%&'()*+,-./0189:;<=>?@AZ[]^_`az{|}~\t\x7f\xa0\xe9\u0663\u2028\u2029\ufeff\uffff\U0001F600\U0010FFFF"
ESCAPES = {'"': '"', "\\": "\\", "/": "/", "b": "\b", "f": "\f", "n": "\n", "r": "\r", "t": "\t"}


def gen_int(rng):
    s = "-" if rng.random() < 0.3 else ""
    if rng.random() < 0.2:
        return s + "0"
    return s + rng.choice("123456789") + "".join(rng.choice("0123456789") for _ in range(rng.choice([0, 0, 1, 2, 5])))


def gen_float(rng):
    s = gen_int(rng)
    frac = "." + "".join(rng.choice("0123456789") for _ in range(rng.choice([1, 1, 2, 4])))
    exp = rng.choice("eE") + rng.choice(["", "+", "-"]) + "".join(rng.choice("0123456789") for _ in range(rng.choice([1, 2, 3])))
    return s + rng.choice([frac, exp, frac + exp])


def gen_name(rng):
    return rng.choice(NAME_START) + "".join(rng.choice(NAME_CONT) for _ in range(rng.choice([0, 1, 2, 3, 8])))


def gen_string(rng):
    """(lexeme, value) of a quoted string. `\\uXXXX` escapes are UTF-16 code units: a high-surrogate escape DIRECTLY followed
    by a low-surrogate escape is one astral character (fix C02-U1); unpaired escapes and literal surrogates stay as they are."""
    pieces = []     # (lexeme text, kind, code) ; kind "u" = \uXXXX escape
    for _ in range(rng.choice([0, 1, 2, 3, 6, 12])):
        k = rng.random()
        if k < 0.5:
            c = rng.choice(STR_CHARS) if rng.random() < 0.7 else chr(rng.choice([rng.randrange(0x20, 0x7f), rng.randrange(0xa0, 0xd800), rng.randrange(0xe000, 0x110000)]))
            if rng.random() < 0.06:
                c = chr(rng.choice([0xD83D, 0xDE00, 0xD800, 0xDFFF]))       # literal lone surrogate: never combined
            if c in '"\\':
                continue
            pieces.append((c, "lit", ord(c)))
        elif k < 0.72:
            e = rng.choice(list(ESCAPES))
            pieces.append(("\\" + e, "esc", ord(ESCAPES[e])))
        else:
            units = [rng.choice([0, 0x41, 0xD800, 0xDFFF, 0xFFFF, 0x2028, 0x22, 0x5C, 0x0A, 0xD83D, 0xDE00, 0xDBFF, 0xDC00, rng.randrange(0x10000)])]
            if rng.random() < 0.35:
                units = [rng.randrange(0xD800, 0xDC00), rng.randrange(0xDC00, 0xE000)]          # a proper pair
            elif rng.random() < 0.2:
                units = [rng.randrange(0xDC00, 0xE000), rng.randrange(0xD800, 0xDC00)]          # low then high: no pair
            elif rng.random() < 0.2:
                units = [rng.randrange(0xD800, 0xDC00), rng.randrange(0xD800, 0xDC00), rng.randrange(0xDC00, 0xE000)]
            for n in units:
                h = "".join(rng.choice([ch.upper(), ch]) for ch in "%04x" % n)
                pieces.append(("\\u" + h, "u", n))
    val = []
    i = 0
    while i < len(pieces):
        _, kind, code = pieces[i]
        if kind == "u" and 0xD800 <= code <= 0xDBFF and i + 1 < len(pieces) and pieces[i + 1][1] == "u" and 0xDC00 <= pieces[i + 1][2] <= 0xDFFF:
            val.append(chr(0x10000 + ((code - 0xD800) << 10) + (pieces[i + 1][2] - 0xDC00)))
            i += 2
        else:
            val.append(chr(code))
            i += 1
    return '"' + "".join(p[0] for p in pieces) + '"', "".join(val)


def gen_block_raw(rng):
    """raw content (already escaped, as written between the triple quotes)."""
    parts = []
    for _ in range(rng.choice([0, 1, 2, 3, 5])):
        k = rng.random()
        if k < 0.5:
            parts.append("".join(rng.choice("ab c\t\"\\#,\xa0\u2028\u0663") for _ in range(rng.choice([0, 1, 2, 4]))))
        elif k < 0.8:
            parts.append(rng.choice(["\n", "\r", "\r\n", "\n\n"]) + rng.choice(["", " ", "  ", "\t", "    "]))
        elif k < 0.9:
            parts.append('\\"""')
        else:
            parts.append(rng.choice(['"', '""', "\\", '\\"', "\\n", "\\u0041"]))
    raw = "".join(parts)
    # an unescaped triple quote would end the string (escaped ones are kept, protected as NUL meanwhile)
    tmp = raw.replace('\\"""', "\x00")
    while '"""' in tmp:
        tmp = tmp.replace('"""', '""')
    raw = tmp.replace("\x00", '\\"""')
    while raw.endswith('"') or raw.endswith("\\"):
        raw = raw[:-1]                   # would fuse with the closing quotes
    return raw


NEWLINE_STYLES = {"mixed": ["\n", "\r", "\r\n"], "cr": ["\r"], "lf": ["\n"], "crlf": ["\r\n"]}


def gen_ignored(rng, need, at_end=False, style="mixed", comments=0.4):
    """one ignored run. `style` = line-terminator convention of the document (old-Mac lone CR, LF, CRLF or mixed);
    every comment is closed by a line terminator of that style (or by the end of input when at_end)."""
    nls = NEWLINE_STYLES[style]
    items = []
    for _ in range(rng.choice([0, 0, 1, 1, 2, 4]) + (1 if need else 0)):
        k = rng.random()
        if k >= comments:
            items.append(rng.choice([" ", " ", "\t", ",", "\ufeff", "  "] + nls + nls))
        else:
            body = "".join(rng.choice("ab \"\\#,{}1.\t\xe9\u2028\U0001F600") for _ in range(rng.choice([0, 1, 3, 8])))
            items.append("#" + body + rng.choice(nls))
    run = "".join(items)
    if at_end and rng.random() < 0.3:
        run += "#" + "".join(rng.choice("ab \"1{") for _ in range(rng.choice([0, 2, 5])))
    return run


WORDISH = ("Integer", "Float", "Name")
STRINGISH = ("String", "BlockString")


def needs_separator(prev, nxt):
    if prev is None or nxt is None:
        return False
    if prev[0] in WORDISH and (nxt[0] in WORDISH or nxt[0] == "Ellip"):
        return True
    if prev[0] in STRINGISH and nxt[0] in STRINGISH:
        return True
    return False


def gen_token(rng):
    """(class, lexeme, value)"""
    from py_gql._string_utils import parse_block_string
    k = rng.random()
    if k < 0.35:
        p = rng.choice(PUNCT)
        return (PUNCT_CLASS[p], p, p)
    if k < 0.55:
        n = gen_name(rng)
        return ("Name", n, n)
    if k < 0.67:
        n = gen_int(rng)
        return ("Integer", n, n)
    if k < 0.79:
        n = gen_float(rng)
        return ("Float", n, n)
    if k < 0.92:
        l, v = gen_string(rng)
        return ("String", l, v)
    raw = gen_block_raw(rng)
    # the expected value of a block string is computed by the Lean specification in run()
    return ("BlockString", '"""' + raw + '"""', None)


def render(rng, toks, style=None, comments=None, spans=None):
    """tokens separated by random ignored runs; `spans` (a list) receives (start, end) of every lexeme"""
    if style is None:
        style = rng.choice(["mixed", "mixed", "cr", "cr", "lf", "crlf"])
    if comments is None:
        comments = rng.choice([0.4, 0.4, 0.7])
    out = []
    pos = 0
    prev = None
    for t in toks:
        ign = gen_ignored(rng, needs_separator(prev, t), style=style, comments=comments)
        out.append(ign)
        pos += len(ign)
        out.append(t[1])
        if spans is not None:
            spans.append((pos, pos + len(t[1])))
        pos += len(t[1])
        prev = t
    out.append(gen_ignored(rng, False, at_end=True, style=style, comments=comments))
    return "".join(out)


MUT_CHARS = list('"\\u019aeE.-+_#{ \n\r\t,') + ["\ufeff", "\u0663", "\xb2", "\x00", "\x1f", "\x7f", "\xa0", "\u2028", "\u2003", "\ud800", "\U0001F600", '"""', '\\"""']


def mutate(rng, text):
    if not text:
        return rng.choice(MUT_CHARS)
    i = rng.randrange(len(text) + 1)
    k = rng.random()
    if k < 0.4:
        return text[:i] + rng.choice(MUT_CHARS) + text[i:]
    if k < 0.7:
        return text[:i] + text[i + 1:]
    if k < 0.85:
        return text[:i] + rng.choice(MUT_CHARS) + text[i + 1:]
    j = rng.randrange(len(text) + 1)
    a, b = min(i, j), max(i, j)
    return text[:a] + text[b:]


EDGE = [
    "\u0663", "1\xb2", "\xb2", "a\u0663", "{ f(a: \u0663) }", "1\u0661", "-\u0663", "1.\u0663", "1e\u0663", "\u0967", "\uff11",
    "1e05", "1.0e-007", "1E+00", "0e0", "-0", "-0.0", "0.0", "-", "--1", "-a", "+1", ".5", "0x", "0x1", "00", "01", "-01", "1.", "1.e1", "1.2.3",
    "1e", "1e+", "1e-", "1ee1", "1.5e", "1_", "1a", "1e1a", "1.0_", "0a", "0_", "0.", "0e", "1..2", "1...", "1 ...", "1,2", "1-2", "1- 2", "0-0",
    "\ufeff", "\ufeff{a}", "{\ufeffa\ufeff}", "a\ufeffb", "1\ufeff2", "\"\ufeff\"", "#\ufeff\n1", "...\ufeff...", ".\ufeff..",
    "\u2028", "a\u2028b", "\u2029", "\x85", "\xa0", "a\xa0b", "\u2003", "\u200b", "\x0b", "\x0c", "\x1c", "\x00", "\x01a", "a\x1f", "\x7f", "a\x7fb",
    "\"\\ud800\"", "\"\\uD800\\uDC00\"", "\"\\uD83D\\uDE00\"", "\"\\ud83d\\ude00x\"", "\"\\uD83D\\u0041\"", "\"\\uD83D\ude00\"", "\"\ud83d\\uDE00\"", "\"\\uDE00\\uD83D\"",
    "\"\\uD83D\\uD83D\\uDE00\"", "\"\\uD83D \\uDE00\"", "\"\\uD83D\\n\\uDE00\"", "\"\\uD83D\\uDE0\"", "\"\\uD83D\\uDE0g\"", "\"\\uD83D\\UDE00\"", "\"\\uDBFF\\uDFFF\"", "\"\\uD83D\\uDE00", "\"\\udfff\"", "\"\ud800\"", "\ud800", "#\ud800\n", "\"\"\"\ud800\"\"\"",
    "\"\\u0663\u0662\u0661\u0660\"", "\"\\u\u0661\u0662\u0663\u0664\"", "\"\\u0x12\"", "\"\\u123 \"", "\"\\u123\n\"", "\"\\u 123\"", "\"\\u+123\"", "\"\\u12_3\"",
    "\"\\u00g0\"", "\"\\uabcd\"", "\"\\uABCD\"", "\"\\uAbCd\"", "\"\\u123\"", "\"\\u12345\"", "\"\\U0041\"", "\"\\x41\"", "\"\\a\"", "\"\\'\"", "\"\\\n\"",
    "\"", "\"\"", "\"\"\"", "\"\"\"\"", "\"\"\"\"\"", "\"\"\"\"\"\"", "\"\"\"\"\"\"\"", "\"a", "\"a\n\"", "\"a\r\"", "\"\t\"", "\"\x00\"", "\"\x7f\"", "\"\x1f\"",
    "\"\\", "\"\\\"", "\"\\\\", "\"\\\\\"", "\"\\u", "\"\\u1", "\"\\u12", "\"\\u123", "\"\\u1234", "\"\\u1234\"", "\"\\ug", "\"\\u1g", "\"a\\", "\"a\\u00",
    "\"\"\"a", "\"\"\"a\"", "\"\"\"a\"\"", "\"\"\"a\\\"\"\"", "\"\"\"a\\\"\"\"\"\"\"", "\"\"\"\\\"\"\"", "\"\"\"\\\\\"\"\"", "\"\"\"\x00\"\"\"", "\"\"\"\t\n\r\"\"\"", "\"\"\"\x0b\"\"\"",
    "\"\"\"a\u2028b\"\"\"", "\"\"\"\n\xa0a\n\xa0b\"\"\"", "\"\"\"\n  a\r\n  b\r  c\"\"\"", "\"\"\" \"\"\"", "\"\"\"\n\"\"\"", "\"\"\"a\"\"\"\"", "\"\"\"\"a\"\"\"", "\"\" \"a\"", "\"\"\"\" \"\"\"",
    ".", "..", "...", "....", "......", ". ..", ".a", "..a", "...a", "a...b", "#", "#a", "#\n", "#a\rb", "#a\x00b", "#\ta", "# \x1f", "##\n#", ",,,", "", " ", "\n", "\r\n", "\t",
    "?", "'a'", "~", "%", "^", "*", "/", "<", ">", ";", "\\", "`", "a-b", "a.b", "a:b", "a!b", "$a", "@a(b:1)", "{a}", "[1,2]", "a_1", "_", "__a", "a1e1", "A", "Z", "z",
    "\xe9", "a\xe9", "\u0131", "\u212a", "K", "\u017f", "\uff41", "\U0001D7D8", "\u00bd", "\u2460", "1\u00bd", "\u3007",
]


def truncations(s):
    return [s[:i] for i in range(len(s) + 1)]


ALPHABET = ['"', "\\", "u", "0", "1", "a", "e", ".", "-", "+", " ", "\n", "#", "{", "_", "\u0663", "\ufeff", "\x00", "\xa0"]


def fixtures():
    out = []
    d = REPO / "tests" / "fixtures"
    for p in sorted(d.glob("*.graphql")):
        try:
            out.append((p.name, p.read_text(encoding="utf8")))
        except Exception:  # noqa
            pass
    return out


# ---------------------------------------------------------------------------------------------

def run(ctx):
    rng = ctx.rng
    _reported.clear()
    # --- corpus first ---------------------------------------------------------------------
    corpus_texts = []
    cdir = REPO.parent  # placeholder to keep flake quiet
    from common import CORPUS
    for p in sorted((CORPUS / "C01").glob("lex_*.json")):
        try:
            d = json.loads(p.read_text())
        except Exception:  # noqa
            continue
        for item in d.get("texts", []):
            corpus_texts.append(from_cps(item) if isinstance(item, list) else item)
    check_texts(ctx, corpus_texts + EDGE, "edge")
    oracle_single_lexemes(ctx, corpus_texts + EDGE, "edge")
    trunc = []
    for s in ['"a\\u12Ab\\n"', '"\\\\\\""', '"""a\\"""b"""', "-12.50e+07", "...", '"\\uD800\\uDC00"', "#c\n1", '{a(b:"\\t")}']:
        trunc += truncations(s)
    check_texts(ctx, trunc, "truncated")
    oracle_single_lexemes(ctx, trunc, "truncated")

    # --- O4 bytes input ---------------------------------------------------------------------
    oracle_bytes(ctx, corpus_texts + EDGE + trunc)

    # --- O3 + correspondence: token sequences under random ignored runs ------------------------
    n_seq = ctx.n(250, 2500)
    seqs = []
    for _ in range(n_seq):
        toks = [gen_token(rng) for _ in range(rng.choice([1, 1, 2, 3, 5, 8, 13]))]
        seqs.append(toks)
    # expected values of block strings: from the Lean specification
    blocks = [(i, j) for i, ts in enumerate(seqs) for j, t in enumerate(ts) if t[0] == "BlockString"]
    if ctx.model_ok and blocks:
        ans = ctx.driver.ask([{"op": "spec_lexeme", "text": cps(seqs[i][j][1])} for i, j in blocks])
        for (i, j), a in zip(blocks, ans):
            t = seqs[i][j]
            seqs[i][j] = (t[0], t[1], None if a["block"] is None else from_cps(a["block"]))
        invalid = {i for (i, j) in blocks if seqs[i][j][2] is None}
        if invalid:
            ctx.stat("generator:invalid-block-lexeme-dropped", len(invalid))
            seqs = [ts for i, ts in enumerate(seqs) if i not in invalid]
    rendered = []
    for toks in seqs:
        a, b = render(rng, toks), render(rng, toks)
        rendered.append((toks, a, b))
    reals = check_texts(ctx, [a for _, a, _ in rendered], "tokens")
    for (toks, a, b), ra in zip(rendered, reals):
        rb = real_lex(b)
        ctx.count()
        exp = [(t[0], t[2]) for t in toks]
        for text, r in ((a, ra), (b, rb)):
            got = [(x[0], x[3]) for x in r[1][1:-1]] if r[0] == "ok" else None
            want = [(k, v) for k, v in exp]
            if got is None or len(got) != len(want) or any(g[0] != w[0] or (w[1] is not None and g[1] != w[1]) for g, w in zip(got, want)):
                report_render_failure(ctx, toks, text, r)
                break
        else:
            ka = [(x[0], x[3]) for x in ra[1]]
            kb = [(x[0], x[3]) for x in rb[1]]
            if ka != kb:
                report_render_failure(ctx, toks, b, rb)
        if ctx.out_of_time():
            break
    ctx.sample({"tokens": [t[1] for t in rendered[0][0]][:6], "rendered": rendered[0][1][:80]})
    bytes_texts = [a for _, a, _ in rendered]
    for t in ['"\xe9"', '"\xe9" ', '"\xe9"\n', '#\xe9', '#\xe9\n', '#\xe9\n ', '{a} #\u2028\U0001F600', '{a(b:"\U0001F600")}  ,,\n', '"""\xe9"""\t',
              '\ufeff{a}', '{a}\ufeff', '"\u0663" # \u0663 \n\n', '{ a # \xe9\n }\n\n\n']:
        bytes_texts.append(t)
    oracle_bytes(ctx, bytes_texts)
    oracle_source_types(ctx, rng, [a for _, a, _ in rendered[: ctx.n(25, 250)]] + [mutate(rng, a) for _, a, _ in rendered[: ctx.n(10, 100)]])
    newline_error_stream(ctx, rng, [a for _, a, _ in rendered[: ctx.n(80, 600)]])

    # single lexemes from the generators (O2)
    lexs = []
    for _ in range(ctx.n(300, 3000)):
        t = gen_token(rng)
        lexs.append(t[1])
        if rng.random() < 0.5:
            lexs.append(mutate(rng, t[1]))
    oracle_single_lexemes(ctx, lexs, "generated")
    oracle_number_lookahead(ctx, rng)
    oracle_spec_readings(ctx)
    oracle_comments(ctx, rng)
    oracle_invalid_utf8(ctx, rng)
    corr_utf8_decoding(ctx, rng)
    oracle_blockless_definitions(ctx)

    # --- mutants and prefixes -----------------------------------------------------------------
    base = [a for _, a, _ in rendered[: ctx.n(40, 300)]]
    fx = fixtures()
    for name, body in fx:
        if len(body) <= 3000:
            base.append(body)
        else:
            for _ in range(ctx.n(3, 20)):
                i = rng.randrange(len(body) - 200)
                base.append(body[i:i + rng.choice([40, 120, 200])])
    mut = []
    for t in base:
        if len(t) <= 400:
            step = 1 if len(t) <= 120 else 3
            mut += [t[:i] for i in range(0, len(t), step)]
        else:
            mut += [t[:i] for i in sorted(rng.sample(range(len(t)), ctx.n(40, 200)))]
        m = t
        for _ in range(ctx.n(3, 10)):
            m = mutate(rng, m)
            mut.append(m)
    rng.shuffle(mut)
    limit = ctx.n(2500, 25000)
    for i in range(0, min(len(mut), limit), 1000):
        if ctx.time_left() < 8:
            ctx.notes.append("mutant stream cut short by the time budget at %d" % i)
            break
        check_texts(ctx, mut[i:i + 1000], "mutants")
    for name, body in fx:
        if body and ctx.time_left() > 10 and (len(body) < 10000 or ctx.tier == "thorough"):
            check_texts(ctx, [body], "fixture")

    # --- END TO END on text through the Lean lexer AND parser ------------------------------------
    if ctx.time_left() > 10:
        parse_text_stream(ctx, rng)

    # --- index_to_loc / highlight_location: totality for 0 <= position <= len, IndexError beyond ------------
    check_locations(ctx, rng)

    # --- bounded-exhaustive short strings -------------------------------------------------------
    maxlen = 3 if ctx.tier == "quick" else 4
    allshort = ["".join(p) for k in range(1, maxlen + 1) for p in itertools.product(ALPHABET, repeat=k)]
    ctx.extra["exhaustive_alphabet"] = len(ALPHABET)
    ctx.extra["exhaustive_maxlen"] = maxlen
    done = 0
    for i in range(0, len(allshort), 4000):
        if ctx.time_left() < 5:
            ctx.notes.append("exhaustive stream cut short at %d of %d" % (i, len(allshort)))
            break
        chunk = allshort[i:i + 4000]
        check_texts(ctx, chunk, "exhaustive")
        oracle_single_lexemes(ctx, chunk, "exhaustive")
        done += len(chunk)
    ctx.extra["exhaustive_strings"] = done


FLAG0 = {"no_location": False, "allow_type_system": False, "experimental_fragment_variables": False}


def parse_text_cases(ctx, cases, stream):
    """END TO END on TEXT: Lean lexAll -> Lean parser (driver op "parse_text") vs the real parse / parse_value / parse_type,
    on the str and on its UTF-8 bytes. cases: (text, entry, flags, expect) with expect True = derived from the grammar."""
    from corr import C01_parse as PP
    reqs = [dict(op="parse_text", entry=e, text=cps(t), **PP.flags_json(fl)) for t, e, fl, _ in cases]
    ans = ctx.driver.ask(reqs) if (ctx.model_ok and cases) else [None] * len(cases)
    for (t, e, fl, expect), a in zip(cases, ans):
        ctx.count()
        real = PP.real_parse(t, e, fl)
        kind = real[0]
        ctx.stat("parse_text:%s:%s:%s" % (stream, e, kind.split(":")[0]))
        det = {"part": PART, "kind": "parse_text", "text": cps(t), "entry": e, "flags": fl}
        if kind.startswith("internal:"):
            t2 = shrink(t, lambda x: PP.real_parse(x, e, fl)[0] == kind, budget=150)
            ctx.fail("%s:parse_text:%s" % (kind, classes(t2)), "parsing a text raises %s instead of GraphQLSyntaxError" % kind.split(":")[1],
                     dict(det, text=cps(t2)))
            continue
        want = PP.canon(real[1].to_dict()) if kind == "ok" else None
        if kind == "ok" and len(t) > 3:
            ctx.nontrivial(("pt", e, PP.fl_key(fl), t))
        # bytes input: same outcome, same tree
        try:
            b = t.encode("utf8")
        except UnicodeEncodeError:
            b = None
        if b is not None:
            rb = PP.real_parse(b, e, fl)
            same = rb[0] == kind and (kind != "ok" or PP.canon(rb[1].to_dict()) == want)
            if not same:
                def bad(x):
                    r1, r2 = PP.real_parse(x, e, fl), PP.real_parse(x.encode("utf8"), e, fl)
                    return r1[0] != r2[0] or (r1[0] == "ok" and r1[1].to_dict() != r2[1].to_dict())
                t2 = shrink(t, bad, budget=150)
                r2 = PP.real_parse(t2.encode("utf8"), e, fl)
                ctx.fail("bytes-parse-differs:%s:%s" % (r2[0], classes(t2)), "parsing the UTF-8 bytes differs from parsing the str",
                         dict(det, text=cps(t2), bytes_outcome=r2[0]))
        if kind == "syntax":
            pos = real[1]
            if not (isinstance(pos, int) and 0 <= pos <= len(t)) and not ESC_AT_EOF.search(t):
                ctx.fail("position-out-of-range:parse_text:other", "syntax error position outside the text", dict(det, position=pos))
            if expect:
                ctx.fail("derivation-rejected-text:%s:%s" % (e, PP.fl_key(fl)), "a text derived from the grammar is rejected", det)
        if a is None:
            continue
        m_ok = "ok" in a
        if m_ok != (kind == "ok"):
            def differs(x):
                rr = PP.real_parse(x, e, fl)
                if rr[0].startswith("internal"):
                    return False
                mm = ctx.driver.ask([dict(op="parse_text", entry=e, text=cps(x), **PP.flags_json(fl))])[0]
                return ("ok" in mm) != (rr[0] == "ok")
            _reported["pt"] = _reported.get("pt", 0) + 1
            t2 = shrink(t, differs, budget=80) if _reported["pt"] <= 4 else t
            ctx.fail("corr:parse_text:accept-mismatch:impl-%s:%s:%s" % ("accepts" if kind == "ok" else "rejects", e, classes(t2, 24)),
                     "real parser and Lean lexer+parser disagree on accepting a text",
                     dict(det, text=cps(t2), model=str(a)[:300]), kind="correspondence")
            # failing-input search: the lexical oracles on the shrunk text and its tokens
            oracle_single_lexemes(ctx, [t2], "shrunk-disagreement")
            rl = real_lex(t2)
            for tok in (rl[1] if rl[0] == "ok" else []):
                oracle_single_lexemes(ctx, [t2[tok[1]:tok[2]]], "shrunk-disagreement")
        elif m_ok and a["ok"] != want:
            ctx.fail("corr:parse_text:ast-differs:%s:%s" % (e, PP.first_diff(want, a["ok"])),
                     "AST of Lean lexer+parser and Node.to_dict() differ", dict(det, model=str(a["ok"])[:400]), kind="correspondence")
        elif (not m_ok) and kind == "syntax" and a["err"].get("stage") == "lex" and "lazy_pos" in a["err"]:
            # a text with a LEXICAL error: the real parser pulls tokens lazily and may report an earlier grammatical error
            # (ParseLazy.lean, Props/C01_lazy.lean). Positions of rejected texts are not part of the property: the agreement of
            # the lazy and of the eager model with the reported position is only COUNTED (evidence), never a failure.
            lz = ctx.extra.setdefault("lazy_window", {"texts_with_lexical_error": 0, "position_as_lazy_model": 0,
                                                      "position_as_eager_model": 0, "lazy_reports_grammatical_error": 0})
            lz["texts_with_lexical_error"] += 1
            lz["position_as_lazy_model"] += int(real[1] == a["err"]["lazy_pos"])
            lz["position_as_eager_model"] += int(real[1] == a["err"].get("pos"))
            lz["lazy_reports_grammatical_error"] += int(a["err"].get("lazy_stage") == "parse")
        if a is not None and (not m_ok) and not (a["err"].get("str_ok") and a["err"].get("dict") is not None):
            ctx.fail("corr:parse_text:model-render", "model rendering of the error position fails", dict(det, model=a), kind="correspondence")


def parse_text_stream(ctx, rng):
    from corr import C01_parse as PP
    cases = []
    for c in PP.derivation_cases(ctx, ctx.n(120, 1200)):
        cases.append((c.text, c.entry, c.flags, c.expect))
        # the same derivation under MY ignored runs (comments, BOM, commas, CR/CRLF, non-ASCII comment bodies)
        toks = [(cl, lx, None) for cl, lx in c.toks]
        cases.append((render(rng, toks), c.entry, c.flags, c.expect))
        if rng.random() < 0.5:
            m = mutate(rng, c.text)
            cases.append((m, c.entry, c.flags, None))
        if rng.random() < 0.3 and c.text:
            cases.append((c.text[: rng.randrange(len(c.text))], c.entry, c.flags, None))
    # keyword-position classes that must be present in EVERY run, under every flag combination (seed C01-4: a directive
    # location that is a Name but not a location, with no_location=True): corpus + generated variants
    from common import CORPUS
    corpus_parse = []
    for pth in sorted((CORPUS / "C01").glob("*.json")):
        try:
            corpus_parse += [from_cps(x) if isinstance(x, list) else x for x in json.loads(pth.read_text()).get("parse_texts", [])]
        except Exception:  # noqa
            pass
    bad_names = ["Query", "query", "field", "on", "true", "null", "SCHEMA_", "Field", "x"]
    good = ["QUERY", "FIELD", "SCHEMA", "ENUM_VALUE", "INPUT_FIELD_DEFINITION"]
    gen_kw = []
    for _ in range(ctx.n(12, 120)):
        locs = [rng.choice(good) for _ in range(rng.choice([0, 1, 2]))]
        locs.insert(rng.randrange(len(locs) + 1), rng.choice(bad_names))
        gen_kw.append("%sdirective @%s%s on %s%s" % (rng.choice(["", '"d" ', "# c\n"]), gen_name(rng), rng.choice(["", "(a: Int)", "(a: Int = 1, b: [S!])"]),
                                                  rng.choice(["", "| "]), " | ".join(locs)))
    for t in corpus_parse + gen_kw:
        for fl in PP.FLAG_COMBOS:
            cases.append((t, "document", fl, None))
    hand = ['directive @a on Query', 'directive @a on FIELD | Query', 'directive @a on | foo', 'directive @a(b: Int) on QUERY | query',
            'directive @a on on', 'directive @a on true', 'directive @a on', '{a}', '{ a(b: "\xe9") }  ', '# \xe9\n{a}\n', '{a} # \U0001F600', '\ufeff{ a }\ufeff', 'query Q($v: Int = 1e05) { a(b: $v) }',
            '{ a(b: "\\u00e9\\n") }', '{ a(b: """\n  x\n   \n    y\n""") }', '{ a(b: \u0663) }', '{ a\u0663 }', '{ a(b: "\\u0663\u0662\u0661\u0660") }',
            '{ a }\r# second operation\rquery Q { b }\r', '{\r  a # one\r  b\n}', 'query Q { a } # end', '{ a #\x01\n }', '# c\r{ a }',
            'query Q { a }\r# c\rfragment F on T { b }\r#', '{ a(b: 1 # c\r c: 2) }',
            '{a}\r\n{b}\r\n?', '{\r\n a\r\n', '[1, 2.5e3, "x", $v, {k: E}]', '[[Int!]]!', 'type A { a: Int } # c', '"d" type A { a: Int }', '{ a(b: "\\']
    for t in hand:
        for fl in PP.FLAG_COMBOS:
            for e in ("document", "value", "type"):
                cases.append((t, e, fl, None))
    for name, body in fixtures():
        if body and len(body) < 8000:
            for fl in PP.FLAG_COMBOS:
                cases.append((body, "document", fl, None))
                cases.append((body.replace("\n", "\r\n"), "document", fl, None))
    for i in range(0, len(cases), 500):
        if ctx.time_left() < 6:
            ctx.notes.append("parse_text stream cut short at %d of %d" % (i, len(cases)))
            break
        parse_text_cases(ctx, cases[i:i + 500], "text")
    ctx.extra["parse_text_cases"] = len(cases)


class _StrSub(str):
    """plain subclass of str (Markup / SafeString style wrapper)"""


class _StrSubOverrides(str):
    """subclass overriding __str__ / __getitem__ harmlessly"""

    def __str__(self):
        return str.__str__(self)

    def __getitem__(self, i):
        return str.__getitem__(self, i)


class _BytesSub(bytes):
    """plain subclass of bytes"""


def source_variants(text):
    """the SOURCE TYPES the entry points accept (documented: Union[str, bytes]; subclasses by duck typing)"""
    from enum import Enum
    out = [("str-subclass", _StrSub(text)), ("str-subclass-overrides", _StrSubOverrides(text)),
           ("str-enum-mixin", Enum("Q", {"X": text}, type=str).X)]
    try:
        out.append(("bytes-subclass", _BytesSub(text.encode("utf8"))))
    except UnicodeEncodeError:
        pass
    return out


def oracle_source_types(ctx, rng, texts):
    """parse / parse_value / parse_type and the Lexer give, on every accepted source type, the outcome they give on the
    plain str of the same text (same tree, or the same class of rejection)."""
    from corr import C01_parse as PP
    hand = ["{ a }", "{ a(b: \"\xe9\") }", "# \U0001F600\n{ a }", "[1, 2.5, \"x\"]", "[Int!]!", "type A { a: Int }", "{ a", "?", "", "\"\\", "1e05", "$v"]
    for i, t in enumerate(hand + list(texts)):
        ref_lex = real_lex(t)
        combos = PP.FLAG_COMBOS if i < len(hand) else [rng.choice(PP.FLAG_COMBOS)]
        for label, src in source_variants(t):
            ctx.count()
            ctx.stat("source-type:%s" % label)
            rl = real_lex(src)
            if rl != ref_lex:
                ctx.fail("source-type-differs:lexer:%s:%s" % (label, rl[1] if rl[0] == "internal" else rl[0]),
                         "Lexer(%s) differs from Lexer(str) on the same text" % label,
                         {"part": PART, "kind": "source_type", "text": cps(t), "variant": label, "entry": "lexer"})
            for e in ("document", "value", "type"):
                for fl in combos:
                    ref = PP.real_parse(t, e, fl)
                    got = PP.real_parse(src, e, fl)
                    same = got[0] == ref[0] and (ref[0] != "ok" or got[1].to_dict() == ref[1].to_dict())
                    if not same:
                        ctx.fail("source-type-differs:%s:%s:%s" % (e, label, got[0]),
                                 "parsing a %s differs from parsing the plain str of the same text (%s instead of %s)" % (label, got[0], ref[0]),
                                 {"part": PART, "kind": "source_type", "text": cps(t), "variant": label, "entry": e, "flags": fl})
    # outside the documented signature (Union[str, bytes]): recorded, not judged
    for name, mk in (("bytearray", bytearray), ("memoryview", memoryview)):
        r = PP.real_parse(mk(b"{a}"), "document", FLAG0)
        ctx.extra["undocumented_source_type:%s" % name] = r[0]


INVALID_UTF8 = [
    ("lone-continuation", b"\x80"), ("lone-continuation", b"\xbf"), ("truncated-2", b"\xc3"), ("truncated-3", b"\xe2\x82"),
    ("truncated-4", b"\xf0\x9f\x98"), ("overlong-2", b"\xc0\x80"), ("overlong-2", b"\xc1\xbf"), ("overlong-3", b"\xe0\x80\x80"),
    ("overlong-4", b"\xf0\x80\x80\x80"), ("surrogate", b"\xed\xa0\x80"), ("surrogate", b"\xed\xbf\xbf"), ("ff", b"\xff"), ("fe", b"\xfe"),
    ("beyond-10ffff", b"\xf4\x90\x80\x80"), ("f5", b"\xf5\x80\x80\x80"), ("bad-continuation", b"\xc3\x28"), ("bad-continuation", b"\xe2\x28\xa1"),
]


def real_bytes_contract(entry, src):
    """('ok',) | ('syntax', problem or None) | ('internal', Class) for a raw bytes source through one entry point"""
    from py_gql.lang import parser as P
    from py_gql.lang.lexer import Lexer
    from py_gql.exc import GraphQLSyntaxError
    fn = {"document": lambda b: P.parse(b, allow_type_system=True), "value": P.parse_value, "type": P.parse_type,
          "lexer": lambda b: list(Lexer(b)), "parser": lambda b: P.Parser(b).parse_document()}[entry]
    try:
        fn(src)
        return ("ok",)
    except GraphQLSyntaxError as e:
        problem = None
        if not isinstance(e.source, str):
            problem = "source-is-%s" % type(e.source).__name__
        elif not (isinstance(e.position, int) and 0 <= e.position <= len(e.source)):
            problem = "position-out-of-range"
        else:
            for what, f in (("str", lambda: str(e)), ("highlighted", lambda: e.highlighted), ("to_dict", lambda: e.to_dict())):
                try:
                    f()
                except Exception as x:  # noqa
                    problem = "%s:%s" % (what, type(x).__name__)
                    break
        return ("syntax", problem)
    except RecursionError:
        return ("internal", "RecursionError")
    except Exception as x:  # noqa
        return ("internal", type(x).__name__)


def oracle_invalid_utf8(ctx, rng):
    """bytes that are NOT valid UTF-8 (lone continuation bytes, truncated sequences, overlongs, UTF-8 encoded surrogates,
    0xFF/0xFE, > U+10FFFF) at the start / in the middle / at the end, inside strings and comments: every entry point
    documented `Union[str, bytes]` rejects them with the library's syntax error, which can be rendered."""
    frames = [(b"", b""), (b"", b"{ a }"), (b"{ a }", b""), (b"{ a ", b" }"), (b'{ a(b: "', b'") }'), (b'{ a(b: "x', b'y") }'), (b"# c ", b"\n{ a }"),
              (b'"""', b'""" type A { a: Int }'), (b"{ a } # ", b""), ('{ a(b: "\xe9\U0001F600") } '.encode("utf8"), b""), (b"[1, ", b"]"), (b"[Int", b"]")]
    for label, bad in INVALID_UTF8:
        for pre, post in frames:
            src = pre + bad + post
            try:
                src.decode("utf8")
                continue            # (not invalid after all)
            except UnicodeDecodeError:
                pass
            for entry in ("document", "value", "type", "lexer", "parser"):
                for variant, b in (("bytes", src), ("bytes-subclass", _BytesSub(src))):
                    if variant == "bytes-subclass" and rng.random() < 0.7:
                        continue
                    ctx.count()
                    r = real_bytes_contract(entry, b)
                    ctx.stat("invalid-utf8:%s" % r[0])
                    where = "start" if not pre else "end" if not post else "middle"
                    if r[0] == "internal":
                        ctx.fail("invalid-utf8-bytes:%s" % r[1],
                                 "a bytes source that is not valid UTF-8 raises %s instead of the syntax error" % r[1],
                                 {"part": PART, "kind": "invalid_utf8", "bytes": list(src), "entry": entry, "class": label, "where": where})
                    elif r[0] == "ok":
                        ctx.fail("invalid-utf8-bytes:accepted:%s" % label, "a bytes source that is not valid UTF-8 is accepted",
                                 {"part": PART, "kind": "invalid_utf8", "bytes": list(src), "entry": entry, "class": label, "where": where})
                    elif r[1]:
                        ctx.fail("invalid-utf8-bytes:render:%s" % r[1], "the syntax error for invalid UTF-8 cannot be rendered / has no position in its text",
                                 {"part": PART, "kind": "invalid_utf8", "bytes": list(src), "entry": entry, "class": label, "where": where})
                    else:
                        ctx.nontrivial(("badutf8", entry, src))


def real_decode(src):
    """what Lexer.__init__ makes of a bytes source: ('ok', text) | ('err', position of the InvalidCharacter) | ('internal', Class)"""
    from py_gql.lang.lexer import Lexer
    from py_gql.exc import GraphQLSyntaxError, InvalidCharacter
    try:
        lx = Lexer(src)
        return ("ok", lx._source)
    except InvalidCharacter as e:
        return ("err", e.position)
    except GraphQLSyntaxError as e:
        return ("internal", "other-syntax-error:" + type(e).__name__)
    except Exception as x:  # noqa
        return ("internal", type(x).__name__)


def corr_utf8_decoding(ctx, rng):
    """Utf8.decode (model of ensure_unicode / Lexer.__init__ on bytes, theorems decode_encode / parse_bytes_eq_text) against the
    real code: every invalid class in every frame, every encoded boundary code point, random byte strings and byte-level
    mutants of valid encodings. Compared: accept / reject, the decoded text, and the character offset the syntax error
    carries (the value fix C01-B8 defines); Python's own decoder is the reference for the same three."""
    if not ctx.model_ok:
        return
    import random
    rng = random.Random(int(ctx.seed) * 7919 + 17)    # own stream derived from VERIF_SEED: leaves ctx.rng (and with it every
    cases = []                                        # other stream of C01_lex / C01_parse) exactly as it was
    for _, bad in INVALID_UTF8:
        for pre, post in ((b"", b""), (b"{ a }", b""), (b'{ a(b: "\xc3\xa9', b'") }'), (b"\xf0\x9f\x98\x80", b"x")):
            cases.append(pre + bad + post)
    for cp in (0, 0x7F, 0x80, 0x7FF, 0x800, 0xFFF, 0x1000, 0xCFFF, 0xD000, 0xD7FF, 0xE000, 0xFFFD, 0xFFFF, 0x10000, 0x3FFFF, 0x40000,
               0xFFFFF, 0x100000, 0x10FFFF):
        cases.append(("a" + chr(cp) + "b").encode("utf8"))
    for _ in range(ctx.n(300, 3000)):
        k = rng.random()
        if k < 0.4:
            cases.append(bytes(rng.choice([0x00, 0x41, 0x7F, 0x80, 0x9F, 0xA0, 0xBF, 0xC0, 0xC1, 0xC2, 0xDF, 0xE0, 0xE1, 0xEC, 0xED, 0xEE, 0xEF,
                                           0xF0, 0xF1, 0xF3, 0xF4, 0xF5, 0xFF, 0x8F, 0x90]) for _ in range(rng.randint(1, 6))))
        else:
            t = "".join(chr(rng.choice([0x41, 0xE9, 0x7FF, 0x800, 0x20AC, 0xD7FF, 0xE000, 0xFFFF, 0x10000, 0x1F600, 0x10FFFF]))
                        for _ in range(rng.randint(1, 4)))
            b = bytearray(t.encode("utf8"))
            if k < 0.8 and b:
                i = rng.randrange(len(b))
                m = rng.random()
                if m < 0.4:
                    b[i] = rng.choice([0x80, 0xBF, 0xC0, 0xE0, 0xED, 0xF0, 0xF4, 0xFF, 0x28])
                elif m < 0.7:
                    del b[i]
                else:
                    del b[i:]
            cases.append(bytes(b))
    cases = [c for c in cases if c]
    answers = ctx.driver.ask([{"op": "decode_utf8", "bytes": list(c)} for c in cases])
    for src, a in zip(cases, answers):
        ctx.count()
        try:
            ref = ("ok", src.decode("utf8"))
        except UnicodeDecodeError as e:
            ref = ("err", len(src[:e.start].decode("utf8")))
        real = real_decode(src)
        model = ("ok", from_cps(a["ok"])) if "ok" in a else ("err", a.get("err"))
        ctx.stat("utf8:%s" % ref[0])
        if ref[0] == "err" or any(ord(ch) > 0x7F for ch in ref[1]):
            ctx.nontrivial(("utf8", src))
        if real[0] == "internal":
            ctx.fail("invalid-utf8-bytes:%s" % real[1], "Lexer(bytes) raises %s" % real[1],
                     {"part": PART, "kind": "invalid_utf8", "bytes": list(src), "entry": "lexer"})
        elif real != model:
            ctx.fail("corr:utf8-decoding:%s-vs-%s" % (real[0], model[0]),
                     "Lexer.__init__ on a bytes source and the model Utf8.decode differ (text / reject / character offset)",
                     {"part": PART, "kind": "utf8", "bytes": list(src), "impl": repr(real)[:200], "model": repr(model)[:200]},
                     kind="correspondence")
        elif ref != model:
            ctx.fail("corr:utf8-decoding:python-decoder:%s-vs-%s" % (ref[0], model[0]),
                     "bytes.decode('utf8') and the model Utf8.decode differ",
                     {"part": PART, "kind": "utf8", "bytes": list(src), "impl": repr(ref)[:200], "model": repr(model)[:200]},
                     kind="correspondence")


BLOCKLESS_CASES = [
    # (glued text, the same with an explicit `query` keyword before the brace, flags)
    ("type A {b}", "type A query {b}"), ("interface A {b}", "interface A query {b}"), ("input A {b}", "input A query {b}"),
    ("extend type A @d {b}", "extend type A @d query {b}"), ("enum A {...F}", "enum A query {...F}"),
    ("extend interface A @d {b}", "extend interface A @d query {b}"), ("extend input A @d {b}", "extend input A @d query {b}"),
    ("extend enum A @d {...F}", "extend enum A @d query {...F}"), ("type A implements B {b}", "type A implements B query {b}"),
]


def oracle_blockless_definitions(ctx):
    """June 2018 has no `[lookahead != {]` on the optional `{...}` blocks of type-system definitions, so `type A {b}` ALSO
    derives as the block-less definition `type A` followed by the query shorthand `{b}`. The library (like graphql-js and the
    2021 text) reads the brace greedily as the definition's own block and rejects - known finding LA2; the grammar
    specification (Spec/Grammar.lean `blockV` / `nla`) takes the same greedy reading explicitly. Siblings without an optional
    block (`scalar A {b}`, `union A = B {b}`) must still be accepted as two definitions."""
    from corr import C01_parse as PP
    fl = {"no_location": True, "allow_type_system": True, "experimental_fragment_variables": False}
    for glued, keyworded in BLOCKLESS_CASES:
        ctx.count()
        a, b = PP.real_parse(glued, "document", fl), PP.real_parse(keyworded, "document", fl)
        ctx.stat("blockless:%s" % a[0])
        if a[0].startswith("internal") or b[0] != "ok":
            ctx.fail("internal:%s:blockless" % a[0], "parser misbehaves on a block-less definition followed by a selection set",
                     {"part": PART, "kind": "blockless", "text": cps(glued), "keyworded": cps(keyworded)})
        elif a[0] == "syntax":
            ctx.fail("june2018-ambiguity:blockless-definition-before-brace",
                     "a block-less type-system definition directly followed by a shorthand query is rejected (greedy `{`)",
                     {"part": PART, "kind": "blockless", "text": cps(glued), "keyworded": cps(keyworded)})
        elif len(a[1].definitions) != 2:
            ctx.fail("blockless-definition-tree-differs", "glued text accepted but not as the two definitions",
                     {"part": PART, "kind": "blockless", "text": cps(glued), "keyworded": cps(keyworded)})
    for t in ("scalar A {b}", "union A = B {b}", "scalar A @d {b}", "directive @d on FIELD {b}", "schema { query: Q } {b}"):
        ctx.count()
        r = PP.real_parse(t, "document", fl)
        if r[0] != "ok" or len(r[1].definitions) != 2:
            ctx.fail("definition-then-shorthand-rejected:%s" % t.split()[0], "a definition without optional block followed by a shorthand query is not two definitions",
                     {"part": PART, "kind": "two_definitions", "text": cps(t)})


def oracle_bytes(ctx, texts):
    """O4: UTF-8 bytes input lexes exactly like the str (positions are code-point offsets)."""
    for t in texts:
        try:
            b = t.encode("utf8")
        except UnicodeEncodeError:
            ctx.stat("bytes:not-encodable")
            continue
        ctx.count()
        ctx.stat("bytes:%s" % ("multibyte" if len(b) != len(t) else "ascii"))
        rs, rb = real_lex(t), real_lex(b)
        if rs != rb:
            _reported["bytes"] = _reported.get("bytes", 0) + 1
            if _reported["bytes"] > 4:
                ctx.stat("bytes-differs-not-shrunk")
                continue
            t2 = shrink(t, lambda x: real_lex(x) != real_lex(x.encode("utf8")))
            rb2 = real_lex(t2.encode("utf8"))
            ctx.fail("bytes-differs:%s:%s" % (rb2[1] if rb2[0] == "internal" else rb2[0], classes(t2)),
                     "UTF-8 bytes input lexes differently from the str",
                     {"part": PART, "kind": "bytes", "text": cps(t2), "bytes_result": repr(rb2)[:200]})


def real_parse_contract(text, entry="document"):
    """the error contract through the PARSER entry points: ('ok',) | ('syntax', pos, problem) | ('internal', Class)"""
    from py_gql.lang import parser as P
    from py_gql.exc import GraphQLSyntaxError
    fn = {"document": P.parse, "value": P.parse_value, "type": P.parse_type}[entry]
    try:
        fn(text, allow_type_system=True)
        return ("ok",)
    except GraphQLSyntaxError as e:
        problem = None
        if str(getattr(e, "message", "") or "") == "":
            problem = "message-empty"
        for what, f in (("str", lambda: str(e)), ("highlighted", lambda: e.highlighted), ("to_dict", lambda: e.to_dict())):
            if problem:
                break
            try:
                f()
            except Exception as x:  # noqa
                problem = "%s:%s" % (what, type(x).__name__)
                break
        return ("syntax", e.position, problem)
    except RecursionError:
        return ("internal", "RecursionError")
    except Exception as x:  # noqa
        return ("internal", type(x).__name__)


def newline_error_stream(ctx, rng, texts):
    """documents under each newline convention (LF, CR, CRLF) with a lexical or syntactic error near the END, rendered
    through str() / .highlighted / .to_dict() — from the lexer and from parse()."""
    tails = ["?", "\"", "\"\\", "\x00", "1a", "..", "}", "{", "\"\\u12", "'", "\"\"\"x", "@", "$"]
    cases = []
    for t in texts + ["{\n  a\n  b\n}\n", "type A {\n  a: Int\n}\n\n", "{ a }\n# c\n"]:
        base = t.replace("\r\n", "\n").replace("\r", "\n")
        for nl in ("\n", "\r", "\r\n"):
            doc = base.replace("\n", nl)
            cases.append(doc + rng.choice(tails))
            cases.append(doc + nl + nl + rng.choice(tails) + rng.choice(["", nl, " "]))
    reals = check_texts(ctx, cases, "newline-errors")
    for t in cases:
        ctx.count()
        r = real_parse_contract(t)
        ctx.stat("newline-errors:parse:%s" % r[0])
        if r[0] == "internal":
            t2 = shrink(t, lambda x: real_parse_contract(x) == r)
            ctx.fail("internal:%s:parse:%s" % (r[1], classes(t2)), "parse() raises %s instead of GraphQLSyntaxError" % r[1],
                     {"part": PART, "kind": "parse_contract", "text": cps(t2)})
        elif r[0] == "syntax":
            if r[2]:
                t2 = shrink(t, lambda x: (lambda q: q[0] == "syntax" and q[2] == r[2])(real_parse_contract(x)))
                ctx.fail("render-raises:%s:parse:%s" % (r[2], "crlf" if "\r\n" in t2 else "cr" if "\r" in t2 else "lf"),
                         "rendering the parser's syntax error raises (%s)" % r[2],
                         {"part": PART, "kind": "parse_contract", "text": cps(t2)})
            if not (0 <= r[1] <= len(t)) and not ESC_AT_EOF.search(t):
                ctx.fail("position-out-of-range:parse:other", "parser syntax error position outside the text",
                         {"part": PART, "kind": "parse_contract", "text": cps(t)})


CR_COMMENT_CASES = [
    ("{ a }\r# second operation\rquery Q { b }\r", ["CurlyOpen", "Name", "CurlyClose", "Name", "Name", "CurlyOpen", "Name", "CurlyClose"]),
    ("{\r  a # one\r  b\n}", ["CurlyOpen", "Name", "Name", "CurlyClose"]),
    ("#c\ra", ["Name"]), ("a#c\rb#d\rc", ["Name", "Name", "Name"]), ("#\r#\r1", ["Integer"]), ("a #x\r\n b #y\r c #z\n d", ["Name"] * 4),
    ("# only a comment", []), ("a # trailing comment", ["Name"]), ("a #\r", ["Name"]), ("#", []), ("a#", ["Name"]), ("1#2\r3", ["Integer", "Integer"]),
    ("\"s\"#\"\r\"t\"", ["String", "String"]), ("...#...\r...", ["Ellip", "Ellip"]), ("{#}\r}", ["CurlyOpen", "CurlyClose"]),
]


def oracle_comments(ctx, rng):
    """a comment ends at the next LF *or lone CR* (or at the end of input) and swallows nothing after it;
    a control character inside a comment is not a CommentChar: the text is rejected."""
    for text, kinds in CR_COMMENT_CASES:
        ctx.count()
        r = real_lex(text)
        got = [x[0] for x in r[1][1:-1]] if r[0] == "ok" else None
        ctx.stat("comments:hand")
        if got != kinds:
            ctx.fail("comment-swallows-tokens:%s" % classes(text, 16), "tokens after a comment closed by a lone CR (or comment at end of input) are lost or the text is rejected",
                     {"part": PART, "kind": "tokens", "text": cps(text), "expect": [[k, None] for k in kinds]})
    ctrl = ["\x00", "\x01", "\x07", "\x08", "\x0b", "\x0c", "\x0e", "\x1b", "\x1f"]
    cases = []
    for c in ctrl:
        for nl in ("\n", "\r", "\r\n", ""):
            cases += ["#" + c + nl + "a", "a #x" + c + "y" + nl + "b", "{ #" + c + nl + "}", "#ok" + nl + "#" + c]
    for text in cases:
        ctx.count()
        r = real_lex(text)
        ctx.stat("comments:control:%s" % r[0])
        if r[0] == "ok":
            ctx.fail("control-char-in-comment-accepted:%s" % classes(text, 16), "a control character inside a comment is accepted (not a SourceCharacter)",
                     {"part": PART, "kind": "reject", "text": cps(text)})
        elif r[0] == "internal":
            ctx.fail("internal:%s:%s" % (r[1], classes(text)), "lexer raises %s" % r[1], {"part": PART, "kind": "lex", "text": cps(text)})
    check_texts(ctx, [t for t, _ in CR_COMMENT_CASES] + cases, "comments")


GLUED_PARSE_CASES = [("document", "{a(x:1b:2)}", "{a(x:1 b:2)}"), ("value", "[1a]", "[1 a]"), ("value", "[1.5e3x]", "[1.5e3 x]"),
                     ("value", "[0xF]", "[0 xF]"), ("value", "{a:1b:2}", "{a:1 b:2}"), ("value", "[-0_]", "[-0 _]")]


def oracle_number_lookahead(ctx, rng):
    """June-2018 IntValue / FloatValue carry no look-ahead restriction: a number lexeme directly followed by a Name must
    lex (and parse) like the same text with a space in between. The lexer rejects it instead ("Explicit lookahead
    restrictions", pinned by test_useful_number_errors) - known finding LA1. Whatever the lexer does, glued and spaced
    texts must never give DIFFERENT token lists."""
    from corr import C01_parse as PP
    for _ in range(ctx.n(200, 2000)):
        n = gen_int(rng) if rng.random() < 0.5 else gen_float(rng)
        c = rng.choice([x for x in NAME_START if x not in "eE"])   # e/E start an exponent: decided by the number grammar (O2)
        tail = rng.choice(["", "1", " ", "b", "_9 x"])
        glued, spaced = n + c + tail, n + " " + c + tail
        ctx.count()
        rg, rs = real_lex(glued), real_lex(spaced)
        ctx.stat("lookahead:%s" % rg[0])
        if rg[0] == "internal" or rs[0] != "ok":
            ctx.fail("internal:%s:%s" % (rg[1], classes(glued)), "lexer misbehaves on a number followed by a name",
                     {"part": PART, "kind": "lex", "text": cps(glued)})
        elif rg[0] == "syntax":
            ctx.fail("number-lookahead:glued-name-rejected",
                     "a number lexeme directly followed by a name is rejected although the same text with a space is accepted",
                     {"part": PART, "kind": "glued", "text": cps(n + c), "spaced": cps(n + " " + c)})
        elif [(x[0], x[3]) for x in rg[1]] != [(x[0], x[3]) for x in rs[1]]:
            ctx.fail("number-name-glued-tokens-differ:%s" % classes(n[-1:] + c),
                     "a number directly followed by a name lexes to other tokens than with a space in between",
                     {"part": PART, "kind": "glued", "text": cps(glued), "spaced": cps(spaced)})
    for entry, glued, spaced in GLUED_PARSE_CASES:
        ctx.count()
        a, b = PP.real_parse(glued, entry, dict(FLAG0, no_location=True)), PP.real_parse(spaced, entry, dict(FLAG0, no_location=True))
        if a[0].startswith("internal") or b[0] != "ok":
            ctx.fail("internal:%s:glued-parse" % a[0], "parser misbehaves on a number followed by a name",
                     {"part": PART, "kind": "glued_parse", "text": cps(glued), "spaced": cps(spaced), "entry": entry})
        elif a[0] == "syntax":
            ctx.fail("number-lookahead:glued-name-rejected:parse",
                     "a text with a number directly followed by a name is rejected although it derives from the June-2018 grammar",
                     {"part": PART, "kind": "glued_parse", "text": cps(glued), "spaced": cps(spaced), "entry": entry})
        elif a[1].to_dict() != b[1].to_dict():
            ctx.fail("number-name-glued-tree-differs:%s" % entry, "glued and spaced texts parse to different trees",
                     {"part": PART, "kind": "glued_parse", "text": cps(glued), "spaced": cps(spaced), "entry": entry})


# (glued text, the same with a space at the seam) - deterministic named probes of the two other pinned readings
LA3_CASES = [('""""', '"" ""'), ('"""a"', '"" "a"'), ('"""\\n"', '"" "\\n"'), ('a """"', 'a "" ""')]
LA3_PARSE_CASES = [("value", '[""""]', '["" ""]'), ("value", '["""a"]', '["" "a"]'), ("document", '{a(x:["""b"])}', '{a(x:["" "b"])}')]
LA4_CASES = [("00", "0 0"), ("01", "0 1"), ("-007", "-0 0 7"), ("00.5", "0 0.5"), ("-00", "-0 0"), ("0 00", "0 0 0"), ("00e1", "0 0e1")]
LA4_PARSE_CASES = [("value", "[00]", "[0 0]"), ("value", "[-007]", "[-0 0 7]"), ("value", "[00.5]", "[0 0.5]"),
                   ("document", "{a(x:[01])}", "{a(x:[0 1])}")]


def oracle_spec_readings(ctx):
    # LA3 / LA4 (Spec/LexicalReadings.lean, Props/C01_readings.lean): June 2018 read with plain maximal munch derives four
    # quotes as two empty strings and `00` as `0` `0`; the lexer rejects both (three quotes always open a block string - the
    # dispatch before `_read_string`, pinned by test_lexer.py::test_useful_string_errors[four quotes]; no digit after the
    # integer part `0` - `_read_over_integer`, pinned by test_useful_number_errors['00', '01']); graphql-js does the same.
    # Named probes; known findings LA3 / LA4. The spaced text must always be accepted, and the glued one must never be
    # accepted with other tokens than the spaced one.
    from corr import C01_parse as PP
    for sig, what, cases, pcases in (
            ("empty-string-lookahead:adjacent-string-rejected",
             "an empty string directly followed by a string is rejected (three quotes always open a block string) although "
             "the same text with a space in between is accepted", LA3_CASES, LA3_PARSE_CASES),
            ("zero-lookahead:leading-zero-rejected",
             "the integer part 0 directly followed by a digit is rejected although the same text with a space in between is "
             "accepted", LA4_CASES, LA4_PARSE_CASES)):
        for glued, spaced in cases:
            ctx.count()
            rg, rs = real_lex(glued), real_lex(spaced)
            ctx.stat("readings:%s:%s" % (sig.split(":")[0], rg[0]))
            ctx.nontrivial(("reading", glued))
            if rg[0] == "internal" or rs[0] != "ok":
                ctx.fail("internal:%s:%s" % (rg[1], classes(glued)), "lexer misbehaves on the named probe of a spec reading",
                         {"part": PART, "kind": "lex", "text": cps(glued)})
            elif rg[0] == "syntax":
                ctx.fail(sig, what, {"part": PART, "kind": "glued", "text": cps(glued), "spaced": cps(spaced)})
            elif [(x[0], x[3]) for x in rg[1]] != [(x[0], x[3]) for x in rs[1]]:
                ctx.fail("reading-glued-tokens-differ:%s:%s" % (sig.split(":")[0], classes(glued)),
                         "the glued text is accepted with other tokens than the spaced one",
                         {"part": PART, "kind": "glued", "text": cps(glued), "spaced": cps(spaced)})
        for entry, glued, spaced in pcases:
            ctx.count()
            fl = dict(FLAG0, no_location=True)
            a, b = PP.real_parse(glued, entry, fl), PP.real_parse(spaced, entry, fl)
            if a[0].startswith("internal") or b[0] != "ok":
                ctx.fail("internal:%s:reading-parse" % a[0], "parser misbehaves on the named probe of a spec reading",
                         {"part": PART, "kind": "glued_parse", "text": cps(glued), "spaced": cps(spaced), "entry": entry})
            elif a[0] == "syntax":
                ctx.fail(sig + ":parse", what, {"part": PART, "kind": "glued_parse", "text": cps(glued), "spaced": cps(spaced),
                                                "entry": entry})
            elif a[1].to_dict() != b[1].to_dict():
                ctx.fail("reading-glued-tree-differs:%s:%s" % (sig.split(":")[0], entry),
                         "glued and spaced texts parse to different trees",
                         {"part": PART, "kind": "glued_parse", "text": cps(glued), "spaced": cps(spaced), "entry": entry})
    check_texts(ctx, [g for g, _ in LA3_CASES + LA4_CASES] + [s for _, s in LA3_CASES + LA4_CASES], "readings")


def real_loc(body, pos):
    from py_gql._string_utils import highlight_location, index_to_loc
    out = []
    for fn in (index_to_loc, highlight_location):
        try:
            out.append(("ok", fn(body, pos)))
        except IndexError:
            out.append(("IndexError", None))
        except Exception as e:  # noqa
            out.append(("internal:" + type(e).__name__, None))
    return out


def check_locations(ctx, rng):
    bodies = ["", "a", "\n", "a\nb", "a\r\nb", "a\rb", "\r", "\r\n", "\n\n\n", "ab\ncd\ne", "a\u2028b\nc", "\r\r\n\n", "{\n  a\n}\n",
              "a\r\nb\r\nc\r\nd", "a\r\n\r\nb\r\n", "\r\n\r\n\r\n", "a\rb\rc\r", "a\n\rb", "a\r\r\nb", "{\r\n  a\r\n  b\r\n}\r\n?"]
    for _ in range(ctx.n(150, 1500)):
        bodies.append("".join(rng.choice("ab \n\n\r{\u2028") for _ in range(rng.choice([1, 2, 3, 5, 9, 30]))))
    for _ in range(ctx.n(60, 600)):
        nl = rng.choice(["\r\n", "\r", "\n", "\r\n"])
        bodies.append(nl.join("".join(rng.choice("ab {") for _ in range(rng.choice([0, 1, 3]))) for _ in range(rng.choice([2, 3, 5, 8]))))
    cases = [(b, p) for b in bodies for p in list(range(len(b) + 3))]
    ans = ctx.driver.ask([{"op": "index_to_loc", "body": cps(b), "pos": p} for b, p in cases]) if ctx.model_ok else [None] * len(cases)
    for (b, p), a in zip(cases, ans):
        ctx.count()
        loc, hl = real_loc(b, p)
        ctx.stat("loc:%s" % ("in-range" if p <= len(b) else "beyond"))
        if p <= len(b):
            ctx.nontrivial(("loc", b, p))
            if loc[0] != "ok" or hl[0] != "ok":
                ctx.fail("location-raises:%s:%s" % (loc[0] if loc[0] != "ok" else hl[0], classes(b)),
                         "index_to_loc / highlight_location raise for a position inside the text",
                         {"part": PART, "kind": "loc", "text": cps(b), "pos": p})
                continue
        if a is None:
            continue
        m_ok = a["loc"] is not None
        if (loc[0] == "ok") != m_ok or (hl[0] == "ok") != bool(a["highlight_ok"]) or \
                (m_ok and list(loc[1]) != a["loc"]):
            ctx.fail("corr:index_to_loc:%s" % classes(b), "model indexToLoc/highlightLocation and the implementation differ",
                     {"part": PART, "kind": "loc", "text": cps(b), "pos": p, "impl": repr((loc, hl[0])), "model": a}, kind="correspondence")


def report_render_failure(ctx, toks, text, r):
    """O3 failed: find the smallest token subsequence that still misbehaves under SOME separator choice."""
    _reported["o3"] = _reported.get("o3", 0) + 1
    if _reported["o3"] > 6:
        ctx.stat("token-sequence-failures-not-shrunk")
        return
    cur = list(toks)

    def bad(ts):
        for sep in (" ", "\n", ",", "#c\r", "\r"):
            text = sep.join(t[1] for t in ts)
            r = real_lex(text)
            got = [(x[0], x[3]) for x in r[1][1:-1]] if r[0] == "ok" else None
            if got is None or len(got) != len(ts) or any(g[0] != t[0] or (t[2] is not None and g[1] != t[2]) for g, t in zip(got, ts)):
                return text
        return None
    if bad(cur):
        i = 0
        while i < len(cur) and len(cur) > 1:
            cand = cur[:i] + cur[i + 1:]
            if bad(cand):
                cur = cand
            else:
                i += 1
        t2 = bad(cur)
        ctx.fail("token-sequence-not-relexed:%s:%s" % ("+".join(t[0] for t in cur)[:40], classes(t2)),
                 "a sequence of valid lexemes separated by ignored characters does not lex to those tokens",
                 {"part": PART, "kind": "tokens", "text": cps(t2), "expect": [[t[0], None if t[2] is None else cps(t[2])] for t in cur]})
    else:
        # depends on the ignored runs themselves
        ctx.fail("ignored-run-significant:%s" % classes(shrink(text, lambda x: real_lex(x)[0] != "ok" if r[0] != "ok" else False) if r[0] != "ok" else text, 16),
                 "the choice of ignored characters between tokens changes the token sequence",
                 {"part": PART, "kind": "tokens", "text": cps(text), "expect": [[t[0], None if t[2] is None else cps(t[2])] for t in toks]})


# ---------------------------------------------------------------------------------------------

def replay(ctx, data):
    """True = the property holds on this input."""
    inp = data.get("input") or {}
    if inp.get("part") not in (None, PART):
        return True
    text = from_cps(inp.get("text", []))
    kind = inp.get("kind")
    r = real_lex(text)
    if kind == "bytes":
        return real_lex(text) == real_lex(text.encode("utf8"))
    if kind == "invalid_utf8":
        r = real_bytes_contract(inp.get("entry", "document"), bytes(inp.get("bytes", [])))
        return r[0] == "syntax" and not r[1]
    if kind in ("blockless", "two_definitions"):
        from corr import C01_parse as PP
        fl = {"no_location": True, "allow_type_system": True, "experimental_fragment_variables": False}
        q = PP.real_parse(text, "document", fl)
        return q[0] == "ok" and len(q[1].definitions) == 2
    if kind == "source_type":
        from corr import C01_parse as PP
        src = dict(source_variants(text)).get(inp.get("variant"))
        if src is None:
            return True
        if inp.get("entry") == "lexer":
            return real_lex(src) == real_lex(text)
        fl = inp.get("flags") or FLAG0
        ref, got = PP.real_parse(text, inp["entry"], fl), PP.real_parse(src, inp["entry"], fl)
        return got[0] == ref[0] and (ref[0] != "ok" or got[1].to_dict() == ref[1].to_dict())
    if kind == "parse_contract":
        q = real_parse_contract(text)
        return q[0] == "ok" or (q[0] == "syntax" and not q[2])
    if kind == "parse_text":
        before = len(ctx.found)
        ctx.model_ok = ctx.driver.available()
        parse_text_cases(ctx, [(text, inp.get("entry", "document"), inp.get("flags") or FLAG0, None)], "replay")
        return not [f for f in ctx.found[before:] if f["kind"] == "property"]
    if kind == "glued":
        rs = real_lex(from_cps(inp.get("spaced", [])))
        return r[0] == "ok" and rs[0] == "ok" and [(x[0], x[3]) for x in r[1]] == [(x[0], x[3]) for x in rs[1]]
    if kind == "glued_parse":
        from corr import C01_parse as PP
        fl = dict(FLAG0, no_location=True)
        a, b = PP.real_parse(text, inp["entry"], fl), PP.real_parse(from_cps(inp.get("spaced", [])), inp["entry"], fl)
        return a[0] == "ok" and b[0] == "ok" and a[1].to_dict() == b[1].to_dict()
    if kind in ("lookahead", "reject"):
        return r[0] == "syntax"
    if kind == "loc":
        loc, hl = real_loc(text, int(inp.get("pos", 0)))
        return loc[0] == "ok" and hl[0] == "ok"
    if kind == "tokens":
        exp = inp.get("expect", [])
        got = [(x[0], x[3]) for x in r[1][1:-1]] if r[0] == "ok" else None
        return got is not None and len(got) == len(exp) and all(
            g[0] == e[0] and (e[1] is None or g[1] == from_cps(e[1])) for g, e in zip(got, exp))
    if r[0] == "internal":
        return False
    if r[0] == "syntax" and (r[2] or not (0 <= r[1] <= len(text))):
        return False
    if kind == "lexeme" and ctx.driver.available():
        before = len(ctx.found)
        oracle_single_lexemes(ctx, [text], "replay")
        return len(ctx.found) == before
    return True

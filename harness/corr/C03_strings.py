# -*- coding: utf-8 -*-
"""
C03 (string part) -- the printer's string encoders round-trip through the lexer.

* correspondence: Lean `PrintString` (driver op "print_string") vs the real `print_string_value`,
  `_block_string`, `_indent` -- exact text equality.
* direct oracle on the real printer + lexer (independent of the model): decode(print(s)) == s
    - quoted form: every code-point list;
    - block form: every value in the range of BlockStringValue, every indent in {0,1,2,4,8,"\\t","  \\t"},
      every enclosing depth 0..3, value and description paths; also end-to-end through `print_ast` of a real
      document that nests the string `depth` selection sets deep / uses it as a type description;
    - printing never raises.
"""
import json

from corr import C01_lex as L

PROPERTY = "C03"
PART = "C03_strings"
RULE = ("string contents: empty, hand-written edge values (quotes, backslashes, trailing quote/backslash, leading blanks, "
        "controls, astral, lone surrogates, U+2028, triple quotes) and random code-point lists; block values = "
        "parse_block_string(random raw) (the range of BlockStringValue) x indent in {0,1,2,4,8,TAB,'  TAB'} x depth 0..3 x "
        "{value, description}. distinct = distinct (value, form, indent, depth); non-trivial = printed form differs from "
        "quote + value + quote (an escape, an indent or a layout line was added)")
ASSUMPTIONS = ["indent strings are over {space, tab} (any other indent string is content, not layout)"]
TRUSTED = []

INDENTS = [0, 1, 2, 4, 8, "\t", "  \t"]
EDGE_VALUES = ["", "a", " ", "  ", "\t", " a", "\ta", " a ", "a\\", " a\\", " \\", "a\"", " a\"", "\"", "\"\"", "\"\"\"", "\"\"\"\"", " \"\"\"",
               "a\"\"\"b", "\\\"\"\"", "\\\\\"\"\"", "a\"\"\"", " a\"\"\"", "\\", "\\\\", "\\n", "\\u0041", "a\nb", "a\n b", " a\nb", "  a\nb", "a\n\nb",
               "a\n \nb", "a\n  b\n c", "\x00", "\x01\x1f", "\x7f", "\x08\x0c\n\r\t", "/", "\xe9", "\u0663", "\u2028", "\u2029", "\x85", "\xa0", "\ufeff",
               "\uffff", "\U00010000", "\U0001F600", "\U0010FFFF", "\ud800", "\udfff", "\ud83d\ude00", "\ude00\ud83d", "a\ud83d\ude00b", "\ud83d\ud83d\ude00", "\ud83d \ude00", "\U0001f600", "a\rb", "a\r\nb", "#", ",", "{}", "\"\\\"",
               "a\n\"", "a\n\\", "a\"\n\"b\"", " \"", " \\\"", "\t\"\"\""]


def ind_str(ind):
    return " " * ind if isinstance(ind, int) else ind


def real_print_string(value, block, indent):
    from py_gql.lang import ast as A
    from py_gql.lang.printer import ASTPrinter
    try:
        return ("ok", ASTPrinter(indent=indent).print_string_value(A.StringValue(value=value, block=block)))
    except Exception as e:  # noqa
        return ("raises", type(e).__name__)


def real_block(value, indent, is_desc, depth):
    from py_gql.lang import printer as P
    try:
        s = P._block_string(value, ind_str(indent), is_desc)
        for _ in range(depth):
            s = P._indent(s, ind_str(indent))
        return ("ok", s)
    except Exception as e:  # noqa
        return ("raises", type(e).__name__)


def single_string_token(text):
    r = L.real_lex(text)
    if r[0] == "ok" and len(r[1]) == 3 and r[1][1][0] in ("String", "BlockString"):
        return r[1][1]
    return None


def value_feature(v):
    f = []
    if v == "":
        f.append("empty")
    if any(ord(c) > 0xFFFF for c in v):
        f.append("astral")
    if v.endswith("\\"):
        f.append("trailing-backslash")
    if v.endswith('"'):
        f.append("trailing-quote")
    if v[:1] in (" ", "\t"):
        f.append("leading-blank")
    if '"""' in v:
        f.append("triple-quote")
    if "\n" in v:
        f.append("multiline")
    return "+".join(f) or L.classes(v)


def in_range_values(rng, n):
    """values in the range of BlockStringValue that the lexer can produce: parse_block_string(raw)."""
    from py_gql._string_utils import parse_block_string
    from corr import C02_decode
    out = []
    for _ in range(n):
        raw = C02_decode.gen_raw(rng)
        if rng.random() < 0.3:
            raw = raw.replace("a", rng.choice(["\"", "\"\"\"", "\\", "\U0001F600", "a\"", "\\\"\"\""]), 1)
        raw = "".join(c for c in raw if c >= " " or c in "\t\n\r")
        out.append(parse_block_string(raw))
    return out


def is_canonical(v):
    from py_gql._string_utils import parse_block_string
    return parse_block_string(v) == v and "\r" not in v and all(c >= " " or c in "\t\n" for c in v)


def check_quoted(ctx, values):
    reqs = [{"op": "print_string", "value": L.cps(v), "block": False, "indent": [32, 32], "depth": 0} for v in values]
    ans = ctx.driver.ask(reqs) if ctx.model_ok else [None] * len(values)
    for v, a in zip(values, ans):
        ctx.count()
        ctx.stat("quoted")
        r = real_print_string(v, False, 2)
        key = "quoted"
        if r[0] != "ok":
            v2 = L.shrink(v, lambda x: real_print_string(x, False, 2)[0] != "ok")
            ctx.fail("print-raises:quoted:%s:%s" % (r[1], value_feature(v2)), "printing a quoted string raises",
                     {"part": PART, "kind": key, "value": L.cps(v2)})
            continue
        if r[1] != '"' + v + '"':
            ctx.nontrivial(("q", v))
        tok = single_string_token(r[1])
        if tok is None or tok[0] != "String" or tok[3] != v:
            def bad(x):
                rr = real_print_string(x, False, 2)
                if rr[0] != "ok":
                    return False
                t = single_string_token(rr[1])
                return t is None or t[3] != x
            v2 = L.shrink(v, bad)
            ctx.fail("quoted-roundtrip:%s" % value_feature(v2), "decode(print(s)) != s for the quoted form",
                     {"part": PART, "kind": key, "value": L.cps(v2), "printed": L.cps(real_print_string(v2, False, 2)[1])})
        if a is not None and L.from_cps(a["text"]) != r[1]:
            ctx.fail("corr:print-quoted:%s" % value_feature(v), "model jsonDumps and print_string_value differ",
                     {"part": PART, "kind": key, "value": L.cps(v), "impl": L.cps(r[1]), "model": a["text"]}, kind="correspondence")


def check_block(ctx, cases):
    """cases: (value, indent, is_desc, depth)"""
    reqs = [{"op": "print_string", "value": L.cps(v), "block": True, "desc": d, "indent": L.cps(ind_str(i)), "depth": k} for v, i, d, k in cases]
    ans = ctx.driver.ask(reqs) if ctx.model_ok else [None] * len(cases)
    for (v, i, d, k), a in zip(cases, ans):
        ctx.count()
        ctx.stat("block:%s:depth%d" % ("desc" if d else "value", k))
        r = real_block(v, i, d, k)
        if r[0] != "ok":
            ctx.fail("print-raises:block:%s:%s" % (r[1], value_feature(v)), "printing a block string raises",
                     {"part": PART, "kind": "block", "value": L.cps(v), "indent": L.cps(ind_str(i)), "desc": d, "depth": k})
            continue
        ctx.nontrivial(("b", v, i, d, k))
        tok = single_string_token(r[1])
        if tok is None or tok[0] != "BlockString" or tok[3] != v:
            def bad(x):
                if not is_canonical(x):
                    return False
                rr = real_block(x, i, d, k)
                if rr[0] != "ok":
                    return False
                t = single_string_token(rr[1])
                return t is None or t[3] != x
            v2 = L.shrink(v, bad)
            ctx.fail("block-roundtrip:%s" % value_feature(v2), "decode(print(s)) != s for the block form",
                     {"part": PART, "kind": "block", "value": L.cps(v2), "indent": L.cps(ind_str(i)), "desc": d, "depth": k,
                      "printed": L.cps(real_block(v2, i, d, k)[1])})
        if a is not None and L.from_cps(a["text"]) != r[1]:
            ctx.fail("corr:print-block:%s" % value_feature(v), "model blockString/indentText and _block_string/_indent differ",
                     {"part": PART, "kind": "block", "value": L.cps(v), "indent": L.cps(ind_str(i)), "desc": d, "depth": k,
                      "impl": L.cps(r[1]), "model": a["text"]}, kind="correspondence")


def check_documents(ctx, cases):
    """end-to-end: the string inside a real document printed by print_ast, re-lexed with the real lexer."""
    from py_gql.lang import ast as A
    from py_gql.lang import print_ast
    for v, i, d, k in cases:
        ctx.count()
        sv = A.StringValue(value=v, block=True)
        try:
            if d:
                node = A.Document(definitions=[A.ScalarTypeDefinition(name=A.Name(value="S"), description=sv)])
            else:
                sel = A.Field(name=A.Name(value="f"), arguments=[A.Argument(name=A.Name(value="a"), value=sv)])
                for _ in range(k):
                    sel = A.Field(name=A.Name(value="g"), selection_set=A.SelectionSet(selections=[sel]))
                node = A.Document(definitions=[A.OperationDefinition(operation="query", selection_set=A.SelectionSet(selections=[sel]))])
            text = print_ast(node, indent=i)
        except Exception as e:  # noqa
            ctx.fail("print-raises:document:%s:%s" % (type(e).__name__, value_feature(v)), "print_ast raises on a block string",
                     {"part": PART, "kind": "document", "value": L.cps(v), "indent": L.cps(ind_str(i)), "desc": d, "depth": k})
            continue
        r = L.real_lex(text)
        got = [t[3] for t in r[1] if t[0] == "BlockString"] if r[0] == "ok" else None
        ctx.stat("document:%s" % ("desc" if d else "depth%d" % k))
        if got != [v]:
            ctx.fail("block-roundtrip:document:%s" % value_feature(v), "block string inside a printed document does not lex back to its value",
                     {"part": PART, "kind": "document", "value": L.cps(v), "indent": L.cps(ind_str(i)), "desc": d, "depth": k, "printed": L.cps(text)})


def run(ctx):
    rng = ctx.rng
    L._reported.clear()
    from common import CORPUS
    corpus = []
    for p in sorted((CORPUS / "C03").glob("*.json")):
        try:
            dd = json.loads(p.read_text())
        except Exception:  # noqa
            continue
        corpus += [L.from_cps(x) if isinstance(x, list) else x for x in dd.get("values", [])]
    values = corpus + list(EDGE_VALUES)
    pool = list(L.STR_CHARS) + list("\"\\\n\r\t\x00\x01\x08\x0c\x1f") + ["\ud800", "\udc00"]
    for _ in range(ctx.n(1500, 15000)):
        n = rng.choice([1, 2, 3, 5, 9, 20])
        values.append("".join(rng.choice(pool) if rng.random() < 0.8 else chr(rng.choice([rng.randrange(0, 0x300), rng.randrange(0x110000)])) for _ in range(n)))
    check_quoted(ctx, values)
    ctx.sample({"value": "a\"\U0001F600\\", "printed": real_print_string("a\"\U0001F600\\", False, 2)[1]})

    canon = [v for v in corpus + EDGE_VALUES if is_canonical(v)] + in_range_values(rng, ctx.n(500, 5000))
    cases = []
    for v in canon:
        for _ in range(2):
            cases.append((v, rng.choice(INDENTS), rng.random() < 0.3, rng.choice([0, 0, 1, 2, 3])))
    # every edge value under every indent at depth 0 and 2
    for v in [x for x in EDGE_VALUES if is_canonical(x)]:
        for i in INDENTS:
            cases.append((v, i, False, 0))
            cases.append((v, i, True, 0))
            cases.append((v, i, False, 2))
    check_block(ctx, cases)
    docs = [c for c in cases if (c[2] and c[3] == 0) or not c[2]]
    check_documents(ctx, docs[: ctx.n(600, 6000)])
    ctx.sample({"value": " a\\", "indent": 2, "printed": real_block(" a\\", 2, False, 1)[1] if real_block(" a\\", 2, False, 1)[0] == "ok" else "raises"})


def replay(ctx, data):
    inp = data.get("input") or {}
    if inp.get("part") not in (None, PART):
        return True
    v = L.from_cps(inp.get("value", []))
    kind = inp.get("kind")
    before = len(ctx.found)
    ctx.model_ok = ctx.driver.available()
    if kind == "quoted":
        check_quoted(ctx, [v])
    elif kind in ("block", "document"):
        ind = L.from_cps(inp.get("indent", [32, 32]))
        case = (v, ind, bool(inp.get("desc")), int(inp.get("depth", 0)))
        (check_block if kind == "block" else check_documents)(ctx, [case])
    return not [f for f in ctx.found[before:] if f["kind"] == "property"]

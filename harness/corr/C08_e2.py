# -*- coding: utf-8 -*-
"""
C08 / C09 - stage `e2-model`: finding E2 (a list completion that raises ResolverError AFTER earlier items' sub-resolvers
were started) INSIDE the Lean model (lean/PyGqlModel/AsyncExecE2.lean, theorems Props/C08_e2.lean).

Deterministic block, every run, no randomness: root fields `before`, a list field whose own resolver is synchronous and
whose completion fails after n = 1..2 items (a lazy iterable raising mid-iteration | an abstract item whose resolve_type
raises), root fields `after`; item sub-fields sync / deferred / nested, ok / ResolverError. For EVERY completion order on
the manual executor (ThreadPoolRuntime, generic Executor) the model's orphan semantics must predict status, data, the error
multiset, the queue sizes and the call/done trace; BlockingExecutor likewise (kind="correspondence").
The property verdict itself (errors differ from BlockingExecutor's for some schedule) is the known finding E2 and is
reported once under its stable signature `<prop>:errors-differ:threadpool:completion-raises-after-sub-resolvers`; the mutation
half of the block (the failing list field FIRST, `execute_fields_serially`, model `E2.executeSerial`) also ties the C09 witness.
"""
import itertools
import json

from corr import C08_world as W

I = {"t": "int"}


def dumps(x):
    return json.dumps(x, sort_keys=True, default=str)


def cases(tier="quick"):
    out = []
    befores = [[], [{"key": "q0", "mode": "deferred", "ty": I, "out": {"r": "ok", "v": 5}}]]
    afters = [[], [{"key": "q2", "mode": "deferred", "ty": I, "out": {"r": "rerr"}}],
              [{"key": "q2", "mode": "sync", "ty": I, "out": {"r": "ok", "v": 7}}]]
    k = 0
    for a_mode, b_mode, a_out, n_items, bi, ai, kind in itertools.product(
            ("deferred", "nested", "sync"), ("deferred", "sync"), ("rerr", "ok"), (1, 2), (0, 1), (0, 1, 2), ("lazy", "abstract")):
        k += 1
        if tier == "quick" and k % 3 != 1 and not (a_mode == "deferred" and a_out == "rerr" and b_mode == "sync"):
            continue
        sub = {"t": "obj", "fields": [{"key": "a", "mode": a_mode, "ty": I}, {"key": "b", "mode": b_mode, "ty": I}]}
        item = {"a": {"r": "rerr"} if a_out == "rerr" else {"r": "ok", "v": 1}, "b": {"r": "rerr"}}
        if kind == "lazy":
            ty = {"t": "list", "of": sub}
            v = {"lazy": [item] * n_items, "fail": True}
        else:
            ty = {"t": "list", "of": dict(sub, abstract=True)}
            v = [item] * n_items + ["cerr", item]
        fld = {"key": "q1", "mode": "sync", "ty": ty, "out": {"r": "ok", "v": v}}
        case = {"kind": "query", "fields": befores[bi] + [fld] + afters[ai]}
        out.append((case, len(befores[bi]), n_items))
        if bi == 0:
            # the same as a MUTATION (execute_fields_serially; model: E2.executeSerial): the failing list field first
            mfld = dict(fld, key="m1")
            mafter = [dict(f, key="m2") for f in afters[ai]]
            out.append(({"kind": "mutation", "fields": [mfld] + mafter}, 0, n_items))
    return out


def to_e2(case, idx, n_items):
    """the E2 operation form of the Lean model"""
    f = case["fields"][idx]
    rv = f["out"]["v"]
    items = W.list_items(rv)[:n_items]
    ok_ty = dict(f["ty"], of={k: v for k, v in f["ty"]["of"].items() if k != "abstract"})
    probe = {"kind": "query", "fields": [{"key": f["key"], "mode": "sync", "ty": ok_ty, "out": {"r": "ok", "v": items}}]}
    comps = W.to_model(probe)["fields"][0]["out"]["c"]["items"]
    sides = W.to_model({"kind": case["kind"], "fields": case["fields"][:idx] + case["fields"][idx + 1:]})
    assert not sides.get("nomodel")
    return {"before": sides["fields"][:idx], "key": f["key"], "items": comps, "after": sides["fields"][idx:]}


def view(obs, with_sched):
    v = {"status": obs["status"], "trace": [e for e in obs["trace"] if e[0] != "body"]}
    if with_sched:
        v["sizes"] = obs["sizes"]
        v["steps"] = obs["steps"]
    if obs["status"] == "ok":
        v["data"] = obs["data"]
        v["errors"] = sorted(obs["errors"], key=dumps)
    if obs["status"] == "failed":
        v["exc"] = obs["exc"]
    return v


def answer_view(ans, with_sched):
    v = {"status": ans.get("status"), "trace": ans.get("trace")}
    if with_sched:
        v["sizes"] = ans.get("sizes")
        v["steps"] = ans.get("steps")
    if v["status"] == "ok":
        v["data"] = ans.get("data")
        v["errors"] = sorted(ans.get("errors", []), key=dumps)
    if v["status"] == "failed":
        v["exc"] = ans.get("exc")
    return v


def e2_stage(ctx, prop="C08", only=None, cap=130, kinds=("query", "mutation")):
    todo = []       # (request, expected view, detail)
    lost = kept = 0
    verdict_reported = False
    n_cases = 0
    for case, idx, n_items in cases(ctx.tier):
        if only is not None and dumps(case) != dumps(only):
            continue
        if case["kind"] not in kinds:
            continue
        if ctx.time_left() < 8:
            ctx.notes.append("e2-model stage cut by the time budget after %d cases" % n_cases)
            break
        n_cases += 1
        e2 = to_e2(case, idx, n_items)
        ref = W.run_blocking(case)
        detail = {"stream": "e2-model", "case": case, "document": W.document(case), "e2": e2}
        todo.append(({"op": "e2-blocking", "case": e2}, view(ref, False), dict(detail, config="blocking"), False))
        ctx.count()
        for sched, obs in W.enumerate_schedules(lambda s: W.run_threadpool(case, s), cap):
            ctx.count()
            ctx.nontrivial(("e2", dumps(e2), tuple(obs["choices"])))
            if obs["status"] == "hang":
                continue            # never completes: reported by the streams of C08 (watchdog), not here
            todo.append(({"op": "e2-serial-async" if case["kind"] == "mutation" else "e2-async", "case": e2, "schedule": obs["choices"]}, view(obs, True),
                         dict(detail, config="threadpool", schedule=obs["choices"]), True))
            if prop == "C09" and case["kind"] == "mutation" and obs["status"] in ("ok", "failed"):
                # C09's own verdict (the statement of serial_order on the real trace): the known finding E2, reported once
                bad = W.serial_violation(case, obs)
                if bad:
                    lost += 1
                    if not verdict_reported:
                        verdict_reported = True
                        ctx.fail("c09:not-serial:threadpool:completion-raises-after-sub-resolvers",
                                 "first mutation field fails while its list is completed after an earlier item's sub-resolver was started: %s "
                                 "(schedule %s)" % (bad, obs["choices"]),
                                 dict(detail, config="threadpool", schedule=obs["choices"], what="not-serial"))
                else:
                    kept += 1
                continue
            if obs["status"] == "ok" and ref["status"] == "ok":
                same = sorted(obs["errors"], key=dumps) == sorted(ref["errors"], key=dumps) and dumps(obs["data"]) == dumps(ref["data"])
                if same:
                    kept += 1
                else:
                    lost += 1
                    if not verdict_reported:
                        verdict_reported = True
                        ctx.fail("%s:errors-differ:threadpool:completion-raises-after-sub-resolvers" % prop.lower(),
                                 "list field fails while being completed after earlier items' sub-resolvers were started: the generic "
                                 "Executor on the thread pool reports errors %s, BlockingExecutor %s (schedule %s)"
                                 % (obs["errors"], ref["errors"], obs["choices"]),
                                 dict(detail, config="threadpool", schedule=obs["choices"], what="errors"))
    if ctx.model_ok and todo:
        answers = ctx.driver.ask([t[0] for t in todo])
        reported = set()
        for (req, want, detail, with_sched), ans in zip(todo, answers):
            got = answer_view(ans, with_sched)
            if dumps(got) == dumps(want):
                continue
            key = next((k for k in ("status", "data", "errors", "exc", "sizes", "steps", "trace") if dumps(got.get(k)) != dumps(want.get(k))), "?")
            sig = "corr:e2-model:%s:%s" % (detail["config"], key)
            if sig in reported:
                continue
            reported.add(sig)
            ctx.fail(sig, "E2 model and real %s differ on %s: model %s, real %s" % (detail["config"], key, dumps(got.get(key))[:300], dumps(want.get(key))[:300]),
                     detail, kind="correspondence")
    ctx.extra["e2_model_cases"] = n_cases
    ctx.extra["e2_model_runs_compared"] = len(todo)
    ctx.extra["e2_schedules_losing_errors"] = lost
    ctx.extra["e2_schedules_keeping_errors"] = kept
    return not any(f["kind"] == "correspondence" and f["signature"].startswith("corr:e2-model") for f in ctx.found)

# -*- coding: utf-8 -*-
"""
C18 — AST visitors: table re-extracted from `lang/visitor.py` on every run (`Generated/VisitTable.lean`),
correspondence of the generic Lean model with the real visitors, and the direct oracle on the real code.
"""
import copy
import json

from common import REPO, CORPUS
from corr import C18_docs as D
from corr import C18_oracle as O
from corr import C18_table as T

PROPERTY = "C18"
RULE = ("documents: hand-made small documents for every syntactic feature (edits exhaustive over ALL entered node positions), "
        "the repo fixtures, seeded generated executable / type-system / mixed documents (edits on sampled positions); "
        "per document: identity, delete / skip / replace / replace-by-other / in-place mutation at a position, multi-edit scripts, "
        "documents parsed WITHOUT locations containing structurally equal siblings (selections, arguments, directives, list values, object fields, definitions; edits at every occurrence, checked by identity; child list objects never edited in place); nested chains and ChainedVisitor subclasses with their own enter/leave (recording, skipping) at every position of an outer chain; DispatchingVisitor class hierarchies created per case and used in six orders (base then subclass, reverse, siblings, subclass of subclass); chains of 2..4 recorders where every member in turn raises SkipNode at every node kind (all calls on all other nodes compared); chains of 1..3 (plain and Dispatching) members configured through the constructor or by assigning / extending / re-ordering `visitors` afterwards (also from a subclass), sub-tree roots, wrong-kind replacements. "
        "non-trivial = distinct (document, visitor script) whose visit enters >= 3 nodes")
ASSUMPTIONS = [
    "a ChainedVisitor that is a member of another ChainedVisitor (and has no enter / leave of its own) is read as its members in place: `chained "
    "visitors enter in order and leave in reverse` is asked of the LEAF visitors of the flattening, also when one of them raises SkipNode; a "
    "ChainedVisitor subclass overriding enter / leave counts as one member",
    "SkipNode raised by a MEMBER of a ChainedVisitor - reading of the statement: `the skip signal suppresses only that node's children and ITS "
    "(the raiser's) leave call`; every other member still gets enter (in order) and leave (in reverse) for the node, i.e. stays balanced "
    "(`enter and then leave exactly once` for a visitor that does not skip); the children are visited by nobody. The code before fix C18-W8 aborts the "
    "loop instead (members before the raiser never leave the node, members after it never enter it: TypeInfoVisitor's stacks shift in validation); "
    "the hunter's variant (continue entering, re-raise) leaves every member unbalanced and does not remove the bogus validation error",
    "replacement by a node of ANOTHER class admitted at that position (selection / value / type reference / definition kinds): the statement is read as "
    "`the replacement is substituted at exactly that position, leave is called once with it, nothing else changes, nothing raises`; whether the "
    "replacement's OWN children are traversed is not stated - the oracle accepts both, the model follows the code (with fix C18-W7: traversed by the "
    "method of the replacement's class; table key `crossKind` observed on the real code)",
    "the model's `chained vs` is a function of the LIVE `visitors` list at the time of each call (what the documented attribute says); chains are therefore also configured by assigning / extending / re-ordering `visitors` after construction and from subclasses",
    "trees are alias-free (no object occurs twice), as produced by the parser; replacement nodes are fresh objects",
    "enter only changes the node it is given (or returns a fresh one); a visitor that deletes or skips does not also mutate; leave does not mutate",
    "exceptions other than SkipNode raised by a visitor abort the visit (modelled as an error outcome, traces not compared)",
    "a `leave` registry miss of DispatchingVisitor (TypeError) is not modelled; enter/leave registries are proved to have the same keys",
    "enter(None) for an unguarded single child that is None is outside the model (outcome NoneNode, never produced by parsed documents)",
]
TRUSTED = [
    "child-kind table `childKinds` (hypothesis `wellKinded` of all_covered_children_visited / siblings_in_source_order_today): classes admitted per "
    "(kind, attribute) = annotations of lang/ast.py with abstract bases expanded UNION classes the real parser produces on the probe documents of "
    "C18_table.py (witnesses, two all-features probes, both kitchen sinks); every document of every run is checked against it (`wellkinded:*` = a "
    "correspondence failure); `source order` of siblings = `__slots__` order, checked against `loc` on the probe documents at extraction",
    "dynamic fallback of the table extraction (C18_dynamic.py, used only when the static extractor does not recognise a shape; evidence key `extraction`): "
    "ENUMERATION ASSUMPTION - the traversal of a node depends only on its class and on which attributes are None, children are dispatched by their own class; "
    "observed on one maximal instance per node class of lang/ast.py with a recording visitor, a None probe per single child and a replacement probe per attribute",
    "C18_table.py: extraction of the traversal table from the Python `ast` of visitor.py (shape-checked; unknown shapes raise)",
    "hand-written model of `_visit_method`, `map_and_filter`, `classdispatch`, `ChainedVisitor.enter/leave` (tied by the correspondence only)",
]
EXPLANATION = ("Theorems are stated about the generic model instantiated with the table extracted from visitor.py on this run; "
               "the model is compared with the real visitors on traces (tag, phase, node identity, kind, handler) and resulting trees.")

FIXTURES = REPO / "tests" / "fixtures"


def extract(ctx):
    t = T.get_table()
    ctx.extra["extraction"] = t["mode"]
    if t["reason"]:
        ctx.extra["extraction_fallback_reason"] = t["reason"]
        ctx.notes.append("static table extraction failed (%s): table observed dynamically" % t["reason"])
    return {"PyGqlModel/Generated/VisitTable.lean": T.to_lean(t)}


# ---------------------------------------------------------------------------------------------------
# generic trees

class Ids:
    def __init__(self):
        self.map = {}
        self.keep = []
        self.fresh = 1000000

    def number(self, root):
        stack = [root]
        # deterministic pre-order over __slots__
        def go(n):
            self.map[id(n)] = len(self.map)
            self.keep.append(n)
            for _, _, c in O.children(n):
                go(c)
        go(root)

    def of(self, obj):
        return self.map.get(id(obj), 999999999)


_DUMPS = {}


def _dumps(v):
    try:
        k = (type(v), v)
        r = _DUMPS.get(k)
        if r is None:
            r = _DUMPS[k] = json.dumps(v)
        return r
    except TypeError:
        return json.dumps(v)


def to_generic(node, ids):
    _ast = O.A()
    attrs = []
    for a in O.attrs_of(node):
        v = getattr(node, a, None)
        if isinstance(v, _ast.Node):
            attrs.append([a, {"o": to_generic(v, ids)}])
        elif v is None:
            attrs.append([a, {"o": None}])
        elif isinstance(v, list) and all(isinstance(x, _ast.Node) for x in v):
            attrs.append([a, {"m": [to_generic(x, ids) for x in v]}])
        else:
            attrs.append([a, {"s": _dumps(v)}])
    return {"k": type(node).__name__, "i": ids.of(node), "a": attrs}


def attr_from_generic(a, ids):
    if "s" in a:
        return json.loads(a["s"])
    if "o" in a:
        return None if a["o"] is None else from_generic(a["o"], ids)
    return [from_generic(x, ids) for x in a["m"]]


def from_generic(g, ids):
    _ast = O.A()
    cls = getattr(_ast, g["k"])
    kw = {}
    for name, a in g["a"]:
        v = attr_from_generic(a, ids)
        if name == "loc" and isinstance(v, list):
            v = tuple(v)
        kw[name] = v
    obj = cls(**kw)
    # constructors replace None by [] for list attributes: put back exactly what was asked
    for name, v in kw.items():
        setattr(obj, name, v)
    ids.map[id(obj)] = g["i"]
    ids.keep.append(obj)
    return obj


def refresh(g, ids):
    """a copy of a generic tree with fresh ids"""
    ids.fresh += 1
    out = {"k": g["k"], "i": ids.fresh, "a": []}
    for name, a in g["a"]:
        if "s" in a:
            out["a"].append([name, a])
        elif "o" in a:
            out["a"].append([name, {"o": None if a["o"] is None else refresh(a["o"], ids)}])
        else:
            out["a"].append([name, {"m": [refresh(x, ids) for x in a["m"]]}])
    return out


def generic_nodes(g, out=None):
    out = [] if out is None else out
    out.append(g)
    for _, a in g["a"]:
        if a.get("o"):
            generic_nodes(a["o"], out)
        for x in a.get("m", []):
            generic_nodes(x, out)
    return out


# ---------------------------------------------------------------------------------------------------
# scripted real visitors

def make_scripted(tag, dispatching, script, ids, log):
    """script: {node id: action dict}; log: shared list of [tag, enter?, id, kind, handler]"""
    _v = O.V()

    def on_enter(h, node):
        i = ids.of(node)
        log.append([tag, True, i, type(node).__name__, h])
        a = script.get(i)
        if a is None:
            return node
        if a["act"] == "delete":
            return None
        if a["act"] == "skip":
            raise _v.SkipNode()
        if a["act"] == "replace":
            return from_generic(a["node"], ids)
        if a["act"] == "mutate":
            for name, x in a["sets"]:
                setattr(node, name, attr_from_generic(x, ids))
            return node
        raise AssertionError(a)

    def on_leave(h, node):
        log.append([tag, False, ids.of(node), type(node).__name__, h])

    if not dispatching:
        class S(_v.ASTVisitor):
            def enter(self, node):
                return on_enter("", node)

            def leave(self, node):
                on_leave("", node)
        return S()

    class DS(_v.DispatchingVisitor):
        pass
    for name in dir(_v.DispatchingVisitor):
        if name.startswith("enter_"):
            setattr(DS, name, (lambda nm: lambda self, node: on_enter(nm, node))(name))
        elif name.startswith("leave_"):
            setattr(DS, name, (lambda nm: lambda self, node: on_leave(nm, node))(name))
    return DS()


def run_real(text, kw, case):
    """-> (request for the model, outcome of the real code)"""
    _v = O.V()
    doc = O.parse_doc(text, kw)
    ids = Ids()
    ids.number(doc)
    ids.fresh = case.get("fresh_base", 1000000) + 500000
    root = doc
    for a, i in case.get("root", []):
        root = getattr(root, a) if i is None else getattr(root, a)[i]
    g = to_generic(root, ids)
    log = []
    members = [make_scripted(m["tag"], m["dispatching"], {int(k): v for k, v in m["script"]}, ids, log) for m in case["visitors"]]
    vis = O.build_chain(members, case.get("config", "constructor")) if case["chain"] else members[0]
    req = {"op": "visit", "tree": g, "chain": case["chain"], "visitors": case["visitors"], "compact": True}
    try:
        res = vis.visit(root)
        orig = to_generic(root, ids)
        out = {"ret": None if res is None else (orig if res is root else to_generic(res, ids)), "orig": orig, "log": log}
    except (AttributeError, TypeError) as e:
        out = {"err": type(e).__name__}
    except RecursionError:
        out = {"err": "internal:RecursionError"}
    except Exception as e:  # noqa
        out = {"err": "internal:" + type(e).__name__}
    return req, out


def entered_ids(text, kw):
    """ids (pre-order numbering) of the nodes a plain visit enters, in order, + generic tree + paths"""
    _v = O.V()
    doc = O.parse_doc(text, kw)
    ids = Ids()
    ids.number(doc)
    g = to_generic(doc, ids)
    trace = []
    O.make_recorder(_v.ASTVisitor, 0, trace).visit(doc)
    idx = O.Index(doc)
    ent = [e[-1] for e in trace if e[-2] == "enter"]
    return [ids.of(n) for n in ent], g, {ids.of(n): idx.path(n) for n in idx.nodes}, {ids.of(n): (idx.parent.get(id(n)) or (None, None, None))[2] is not None for n in ent}


MUTABLE = {"alias": {"o": None}, "directives": {"m": []}, "arguments": {"m": []}, "description": {"o": None}, "default_value": {"o": None}}


def gen_cases(rng, text, kw, exhaustive, n_sample):
    ent, g, paths, in_list = entered_ids(text, kw)
    by_id = {x["i"]: x for x in generic_nodes(g)}
    fresh = Ids()
    plain = lambda script, tag=0, disp=False: {"tag": tag, "dispatching": disp, "script": [[i, a] for i, a in script.items()]}  # noqa: E731
    cases = [{"chain": False, "visitors": [plain({})]}, {"chain": False, "visitors": [plain({}, disp=True)]}]
    for k in (1, 2, 3):
        cases.append({"chain": True, "visitors": [plain({}, tag=t, disp=(t % 2 == 1)) for t in range(k)],
                      "config": O.CHAIN_CONFIGS[(k * 2 + len(ent)) % len(O.CHAIN_CONFIGS)]})

    def action(i, what):
        x = by_id[i]
        if what == "replace":
            return {"act": "replace", "node": refresh(x, fresh)}
        if what == "replace-other":
            same = [j for j in ent if by_id[j]["k"] == x["k"] and j != i]
            if not same:
                return None
            return {"act": "replace", "node": refresh(by_id[rng.choice(same)], fresh)}
        if what == "wrong-kind":
            other = [j for j in ent if by_id[j]["k"] != x["k"]]
            if not other:
                return None
            return {"act": "replace", "node": refresh(by_id[rng.choice(other)], fresh)}
        if what == "mutate":
            names = [n for n, _ in x["a"] if n in MUTABLE]
            if not names:
                return None
            n = rng.choice(names)
            if n == "default_value" and x["k"] == "VariableDefinition" and False:
                return None
            return {"act": "mutate", "sets": [[n, MUTABLE[n]]]}
        return {"act": what}

    positions = ent if exhaustive else rng.sample(ent, min(n_sample, len(ent)))
    for i in positions:
        for what in ("delete", "skip", "replace", "replace-other", "mutate"):
            a = action(i, what)
            if a is not None:
                cases.append({"chain": False, "visitors": [plain({i: a}, disp=rng.random() < 0.3)], "what": what, "at": i,
                              "path": paths.get(i)})
    # wrong-kind replacements, multi-edit scripts, chains with editing members, sub-tree roots
    for _ in range(2 if not exhaustive else 4):
        i = rng.choice(ent)
        a = action(i, "wrong-kind")
        if a:
            cases.append({"chain": False, "visitors": [plain({i: a})], "what": "wrong-kind", "at": i})
    for _ in range(3 if not exhaustive else 6):
        script = {}
        for i in rng.sample(ent, min(len(ent), rng.randrange(2, 5))):
            a = action(i, rng.choice(["delete", "skip", "replace", "replace-other", "mutate"]))
            if a:
                script[i] = a
        cases.append({"chain": False, "visitors": [plain(script, disp=rng.random() < 0.5)], "what": "multi"})
    for _ in range(4 if not exhaustive else 8):
        k = rng.randrange(1, 4)
        members = []
        for t in range(k):
            script = {}
            for i in rng.sample(ent, min(len(ent), rng.randrange(0, 3))):
                a = action(i, rng.choice(["delete", "skip", "replace", "mutate", "replace-other"]))
                if a:
                    script[i] = a
            members.append(plain(script, tag=t, disp=rng.random() < 0.4))
        cases.append({"chain": True, "visitors": members, "what": "chain-edit", "config": rng.choice(O.CHAIN_CONFIGS)})
    for _ in range(2):
        i = rng.choice(ent)
        if paths.get(i):
            cases.append({"chain": False, "visitors": [plain({}, disp=rng.random() < 0.5)], "root": paths[i], "what": "subtree"})
    for c in cases:
        c["fresh_base"] = 1000000
    return cases, len(ent)


def transform_case(text, kw, which):
    """the real ast_transforms helper as a `mutate` script (for the correspondence)"""
    import py_gql.utilities.ast_transforms as TR
    from py_gql._string_utils import camelcase_to_snakecase, snakecase_to_camelcase
    doc = O.parse_doc(text, kw)
    ids = Ids()
    ids.number(doc)
    g = to_generic(doc, ids)
    script = []
    for x in generic_nodes(g):
        if x["k"] != "Field":
            continue
        at = dict((n, a) for n, a in x["a"])
        if which == "RemoveFieldAliasesVisitor":
            if at["alias"]["o"] is not None:
                script.append([x["i"], {"act": "mutate", "sets": [["alias", {"o": None}]]}])
        else:
            fn = camelcase_to_snakecase if which == "CamelCaseToSnakeCaseVisitor" else snakecase_to_camelcase
            name = copy.deepcopy(at["name"]["o"])
            name["a"] = [[n, ({"s": json.dumps(fn(json.loads(a["s"])))} if n == "value" else a)] for n, a in name["a"]]
            script.append([x["i"], {"act": "mutate", "sets": [["name", {"o": name}]]}])
    req = {"op": "visit", "tree": g, "chain": False, "visitors": [{"tag": 0, "dispatching": True, "script": script}]}
    res = getattr(TR, which)().visit(doc)
    return req, {"ret": to_generic(res, ids), "orig": to_generic(doc, ids)}


# ---------------------------------------------------------------------------------------------------

def documents(ctx):
    docs = []
    cdir = CORPUS / PROPERTY
    if cdir.exists():
        for p in sorted(cdir.glob("*.json")):
            d = json.loads(p.read_text())
            docs.append((d["text"], d.get("kw", {}), "corpus", True))
    docs += [(t, {}, "small", True) for t in D.SMALL_EXECUTABLE]
    docs += [(t, {"experimental_fragment_variables": True}, "small", True) for t in D.SMALL_EXECUTABLE_FRAGVARS]
    docs += [(t, {"allow_type_system": True}, "small", True) for t in D.SMALL_TYPE_SYSTEM]
    docs += [(t, {"no_location": True}, "small-noloc", True) for t in D.NOLOC_EXECUTABLE]
    docs += [(t, {"no_location": True, "allow_type_system": True}, "small-noloc", True) for t in D.NOLOC_TYPE_SYSTEM]
    docs.append(((FIXTURES / "kitchen-sink.graphql").read_text(), {}, "fixture", False))
    docs.append(((FIXTURES / "schema-kitchen-sink.graphql").read_text(), {"allow_type_system": True}, "fixture", False))
    docs.append(((FIXTURES / "introspection-schema.graphql").read_text(), {"allow_type_system": True}, "fixture", False))
    for _ in range(ctx.n(44, 380)):
        r = ctx.rng.random()
        if r < 0.4:
            docs.append((D.gen_executable(ctx.rng, True), {"experimental_fragment_variables": True}, "gen-exec", False))
        elif r < 0.5:
            docs.append((D.gen_executable(ctx.rng, False, n=1), {}, "gen-exec", False))
        else:
            docs.append((D.gen_type_system(ctx.rng, mixed=True), {"allow_type_system": True}, "gen-sdl", False))
        if ctx.rng.random() < 0.3:     # same generator, parsed without locations (duplicates become `==`)
            t, kw, o, e = docs[-1]
            docs[-1] = (t, dict(kw, no_location=True), o + "-noloc", e)
    return docs


COLLAPSE_AT = 4   # >= this many distinct UNKNOWN signatures of one family = one wrapper-level cause


class Collector:
    """Buffers the direct-oracle failures of a run. Known findings pass through one by one; unknown signatures of the
    same family (text before the first ':') that occur for many kinds / positions have ONE structural cause in the
    shared wrapper (`_visit_method`, `map_and_filter`, `visit`), and are reported as one `family:many-positions`."""

    def __init__(self, ctx):
        import common
        self.ctx = ctx
        self.known = common.load_known()
        self.match = common.match_known
        self.items = {}

    def fail(self, sig, what, detail):
        it = self.items.get(sig)
        if it is None:
            self.items[sig] = [what, detail, 1]
        else:
            it[2] += 1
            if len(detail.get("text", "")) < len(it[1].get("text", "")):   # keep the smallest document as the replay
                it[0], it[1] = what, detail

    def flush(self):
        fam = {}
        for sig, (what, detail, n) in self.items.items():
            if self.match(PROPERTY, sig, self.known) is not None:
                self._emit(sig, what, detail, n)
            else:
                fam.setdefault(":".join(sig.split(":")[:2]) if sig.startswith("chain:") else sig.split(":")[0], []).append((sig, what, detail, n))
        for f, lst in fam.items():
            if len(lst) >= COLLAPSE_AT:
                sig, what, detail, _ = min(lst, key=lambda x: len(x[2].get("text", "")))
                d = dict(detail, collapsed=[x[0] for x in lst][:60], replay_signature=sig)
                self._emit("%s:many-positions" % f, "%d distinct `%s` failures (first: %s)" % (len(lst), f, what), d, sum(x[3] for x in lst))
            else:
                for sig, what, detail, n in lst:
                    self._emit(sig, what, detail, n)

    def _emit(self, sig, what, detail, n):
        self.ctx.fail(sig, what, detail)
        for f in self.ctx.found:
            if f["signature"] == sig and f["kind"] == "property":
                f["count"] = n


def run(ctx):
    coll = Collector(ctx)
    try:
        table = T.get_table()
        ctx.extra["extraction"] = table["mode"]
        ctx.extra["table_methods"] = len(table["methods"])
        ctx.extra["table_steps"] = sum(len(s) for _, s in table["methods"])
        _CK.clear()
        _CK.update({tuple(k): set(v) for k, v in table.get("child_kinds", [])})
        ctx.extra["child_kind_rows"] = len(_CK)
    except Exception as e:  # the obligation is already reported by the framework
        ctx.notes.append("table extraction failed: %s" % e)
    docs = documents(ctx)
    reqs, meta = [], []
    t_oracle = 0.55 * ctx.time_left()
    deadline_oracle = ctx.time_left() - t_oracle
    for text, kw, origin, exhaustive in docs:
        if ctx.time_left() < deadline_oracle and origin.startswith("gen"):
            ctx.stat("docs-skipped-out-of-time")
            continue
        ctx.stat("doc:" + origin)

        def fail(sig, what, detail, text=text, kw=kw):
            d = dict(detail)
            d.update({"text": text, "kw": kw})
            coll.fail(sig, what, d)
        try:
            direct_oracle(ctx, text, kw, fail, exhaustive)
        except Exception as e:  # noqa: never let an exception of the code under test escape
            coll.fail("internal:%s" % type(e).__name__, "the real visitor raises on a parsed document", {"text": text, "kw": kw, "exc": repr(e)})
            continue
        if ctx.model_ok:
            try:
                cases, n_ent = gen_cases(ctx.rng, text, kw, exhaustive, ctx.n(3, 6))
            except Exception as e:  # noqa
                ctx.notes.append("case generation failed: %r" % e)
                continue
            ctx.stat("entered-nodes<=10" if n_ent <= 10 else ("entered-nodes<=40" if n_ent <= 40 else "entered-nodes>40"))
            first = True
            for c in cases:
                req, out = run_real(text, kw, c)
                reqs.append(req)
                meta.append((text, kw, c, out))
                if first and "method" not in req:
                    # hypothesis `WellShaped table t` of wellShaped_visit_ok, on the generic tree of this parsed document
                    first = False
                    reqs.append({"op": "shape", "tree": req["tree"]})
                    meta.append((text, kw, {"what": "shape"}, {}))
                # the SPECIFICATION `Spec.editAt` against the real result (delete / replace at one position)
                if (c.get("what") in ("delete", "replace", "replace-other") and c.get("path") and "err" not in out
                        and (exhaustive or ctx.rng.random() < 0.35)):
                    act = c["visitors"][0]["script"][0][1]
                    reqs.append({"op": "edit", "tree": req["tree"], "path": c["path"], "node": act.get("node")})
                    meta.append((text, kw, dict(c, what="spec-edit:" + c["what"]), {"ret": out["ret"], "orig": out["ret"]}))
            for which in ("RemoveFieldAliasesVisitor", "CamelCaseToSnakeCaseVisitor", "SnakeCaseToCamelCaseVisitor"):
                if "allow_type_system" in kw:
                    break
                req, out = transform_case(text, kw, which)
                reqs.append(req)
                meta.append((text, kw, {"what": which}, out))
    if ctx.tier == "thorough" and ctx.time_left() > 120:
        big = (FIXTURES / "github-schema.graphql").read_text()
        try:
            direct_oracle(ctx, big, {"allow_type_system": True}, lambda s, w, d: coll.fail(s, w, dict(d, text="<github-schema.graphql>", kw={"allow_type_system": True})), False, big=True)
            ctx.stat("doc:github-schema")
        except Exception as e:  # noqa
            ctx.fail("internal:%s" % type(e).__name__, "the real visitor raises on github-schema.graphql", {"exc": repr(e)})
    try:
        O.check_deep(ctx, coll.fail)
    except Exception as e:  # noqa
        ctx.notes.append("deep nesting stream failed: %r" % e)
    coll.flush()
    if ctx.model_ok and reqs:
        answers = []
        for i in range(0, len(reqs), 400):
            answers += ctx.driver.ask(reqs[i:i + 400])
        for (text, kw, c, out), ans in zip(meta, answers):
            compare(ctx, text, kw, c, out, ans)
    ctx.sample({"document": docs[3][0], "real_events_of_identity_visit": [list(O.key(e)) for e in _identity_trace(docs[3][0], docs[3][1])]})


def _identity_trace(text, kw):
    tr = []
    O.make_recorder(O.V().ASTVisitor, 0, tr).visit(O.parse_doc(text, kw))
    return tr


_CK = {}


def check_well_kinded(ctx, doc, text, kw):
    """hypothesis `wellKinded childKinds t` of Props/C18_reach.lean (all_covered_children_visited, the sibling-order theorems):
       every child class the parser produced is in the re-extracted child-kind table"""
    if not _CK:
        return
    bad = T.ill_kinded(doc, _CK)
    ctx.stat("well-kinded" if not bad else "ill-kinded")
    for k, a, c in sorted(set(bad))[:3]:
        ctx.fail("wellkinded:%s.%s:%s" % (k, a, c), "the parser produced a %s under %s.%s, outside the child-kind table extracted from "
                 "lang/ast.py + probe documents: the hypothesis of the coverage / order theorems does not hold for this document" % (c, k, a),
                 {"text": text, "kw": kw, "what": "wellkinded"}, kind="correspondence")


def direct_oracle(ctx, text, kw, fail, exhaustive, big=False):
    r = O.check_structure(ctx, text, kw, fail)
    ctx.count()
    doc, idx, trace, entered = r
    check_well_kinded(ctx, doc, text, kw)
    n = len(entered)
    if n >= 3:
        ctx.nontrivial(("structure", text))
    kinds = {type(x).__name__ for x in idx.nodes}
    for k in kinds:
        ctx.stat("kind:" + k)
    if big:
        pos = ctx.rng.sample(range(n), 6)
        O.check_edits(ctx, text, kw, fail, positions=pos)
        return
    pos = None if exhaustive else sorted(ctx.rng.sample(range(n), min(n, ctx.n(4, 8))))
    O.check_edits(ctx, text, kw, fail, positions=pos)
    # member delete / replace / skip at sampled positions (every node kind x every member is in check_chain_skips)
    cp = sorted(ctx.rng.sample(range(n), min(n, 4 if exhaustive else 3)))
    for k in ((1, 3) if exhaustive else (ctx.rng.choice([1, 2, 3]),)):
        O.check_chain(ctx, text, kw, fail, k, cp, dispatching=ctx.rng.random() < 0.5)
    for config in (O.CHAIN_CONFIGS[1:] if exhaustive else (ctx.rng.choice(O.CHAIN_CONFIGS[1:]),)):
        O.check_chain_configured(ctx, text, kw, fail, ctx.rng.choice([2, 3]), config, dispatching=ctx.rng.random() < 0.3)
    for history in (O.HISTORIES if exhaustive else (ctx.rng.choice(O.HISTORIES),)):
        O.check_class_history(ctx, text, kw, fail, history, ctx.rng)
    kinds_pos = {}
    for q, e in enumerate([e for e in trace if e[-2] == "enter"]):
        kinds_pos.setdefault(type(e[-1]).__name__, q)          # first position of every node kind
    sp = sorted(kinds_pos.values()) if exhaustive else sorted(ctx.rng.sample(sorted(kinds_pos.values()), min(len(kinds_pos), 3)))
    for k in ((2, 3, 4) if exhaustive else (ctx.rng.choice([2, 3, 4]),)):
        # every node kind with 3 members (every member raising in turn); 2 kinds with 2 and with 4 members
        O.check_chain_skips(ctx, text, kw, fail, k, sp if (k == 3 or not exhaustive) else ctx.rng.sample(sp, min(len(sp), 2)))
    O.check_cross_kind(ctx, text, kw, fail, range(n) if exhaustive else sorted(ctx.rng.sample(range(n), min(n, 6))), ctx.rng,
                       all_kinds=exhaustive and n <= 14)
    for variant in (("plain", "tracing", "skipping") if exhaustive else (ctx.rng.choice(["plain", "tracing", "skipping"]),)):
        for position in ((0, 1, 2) if exhaustive else (ctx.rng.randrange(3),)):
            O.check_chain_nested(ctx, text, kw, fail, position, variant, ctx.rng.randrange(len(entered)))
    for k in ((3, 4, 5) if exhaustive else (ctx.rng.choice([3, 4, 5]),)):
        O.check_chain_nested_flat(ctx, text, kw, fail, k, ctx.rng.randrange(4), ctx.rng.randrange(len(entered)),
                                  ctx.rng.choice(["plain", "subclass", "assigned"]), ctx.rng)
    O.check_dispatching(ctx, text, kw, fail)
    _register_later(ctx, text, kw, len(entered))
    if exhaustive or ctx.rng.random() < 0.3:
        O.check_subroots(ctx, text, kw, fail)
    if "allow_type_system" not in kw or exhaustive:
        O.check_transforms(ctx, text, kw, fail)


def _register_later(ctx, text, kw, n):
    """history independence: the SAME document, Dispatching visitor and chain (one member skipping at a node) are
    visited again at the end of the run; the calls must be the ones made now."""
    if not hasattr(ctx, "later"):
        return
    _v = O.V()
    doc = O.parse_doc(text, kw)
    tr = []
    ents = []
    O.make_recorder(_v.ASTVisitor, 0, ents).visit(doc)
    x = [e[-1] for e in ents if e[-2] == "enter"][ctx.rng.randrange(n)]
    disp = O.make_recorder(_v.DispatchingVisitor, 0, tr)
    chain = _v.ChainedVisitor(O.make_recorder(_v.ASTVisitor, 0, tr), O.make_recorder(_v.DispatchingVisitor, 1, tr, {id(x): ("skip", None)}),
                              O.make_recorder(_v.ASTVisitor, 2, tr))

    def thunk(v):
        def run():
            del tr[:]
            v.visit(doc)
            return [[e[0]] + list(O.key(e)) for e in tr]
        return run
    for label, v in (("visit:dispatching-recorder", disp), ("visit:chain-with-skipping-member", chain)):
        t = thunk(v)
        ctx.later(label, t, t(), {"text": text, "kw": kw})


def compare(ctx, text, kw, case, out, ans):
    if case.get("what") == "shape":
        ctx.count()
        ctx.stat("well-shaped" if ans.get("shape") is True else "ill-shaped")
        if ans.get("shape") is not True:
            ctx.fail("corr:shape:ill-shaped", "a document produced by the real parser does not pass `WellShaped table` (the premise of "
                     "wellShaped_visit_ok): the completion of its identity visit is not covered by the theorem", {"text": text, "kw": kw},
                     kind="correspondence")
        return
    ctx.count()
    what = case.get("what", "identity")
    ctx.stat("case:" + what)
    if "err" in ans and ans["err"] in ("NoneNode", "ShapeError", "NoMethod", "NoDispatcher", "bad-action", "fuel"):
        ctx.stat("model-outcome:" + ans["err"])
        if ans["err"] in ("NoneNode", "ShapeError") and "err" in out:
            return
        if ans["err"] in ("NoneNode", "ShapeError"):
            # python went on past a None / mis-shaped attribute: outside the model (see ASSUMPTIONS)
            return
    diff = None
    if what == "wrong-kind" and ctx.extra.get("extraction") == "dynamic":
        return   # the observed table has one method per class: which body runs on a node of another class is not observable
    if "err" in out or "err" in ans:
        # wrong-kind replacements: a missing attribute is AttributeError, or TypeError when the class attribute
        # `SupportDirectives.directives = NotImplemented` is found instead: only "both raise" is compared
        ro, ra = out.get("err"), ans.get("err")
        if what == "wrong-kind" and ro in ("AttributeError", "TypeError") and ra in ("AttributeError", "TypeError"):
            ro = ra
        if ro != ra:
            diff = "outcome"
        ctx.stat("outcome:" + str(out.get("err")))
    else:
        if what.startswith("spec-edit:"):
            ans = dict(ans, orig=ans.get("ret"))
        if ans.get("orig") is None and "same" in ans:   # compact answer: orig omitted when equal to ret
            ans = dict(ans, orig=ans["ret"])
        if out["ret"] != ans["ret"]:
            diff = "returned-tree"
        elif out["orig"] != ans["orig"]:
            diff = "tree-in-place"
        elif "log" in out and out["log"] != ans["log"]:
            diff = "trace"
        if "log" in out and len(out["log"]) >= 6:
            ctx.nontrivial(("case", text, json.dumps(case, sort_keys=True)))
    if diff:
        sig = "corr:%s:%s" % (diff, what)
        ctx.fail(sig, "model and real visitor differ (%s) for a %s case" % (diff, what),
                 {"text": text, "kw": kw, "case": case, "real": _short(out), "model": _short(ans)}, kind="correspondence")


def _short(o):
    s = json.dumps(o)
    return s if len(s) < 3000 else s[:3000] + "…"


def replay(ctx, data):
    inp = data.get("input", {})
    sig = data.get("signature", "")
    text, kw = inp.get("text"), inp.get("kw", {})
    if text is None:
        return True
    if text == "<github-schema.graphql>":
        text = (FIXTURES / "github-schema.graphql").read_text()
    seen = []

    def fail(s, w, d):
        seen.append(s)
    try:
        if inp.get("what") == "wellkinded":
            return not T.ill_kinded(O.parse_doc(text, kw), T.get_table().get("child_kinds", []))
        if "case" in inp:   # a correspondence disagreement: re-ask the model
            req, out = run_real(text, kw, inp["case"])
            ans = ctx.driver.ask([req])[0]
            before = len(ctx.found)
            compare(ctx, text, kw, inp["case"], out, ans)
            return len(ctx.found) == before
        O.check_structure(ctx, text, kw, fail, root_pos=inp.get("root_pos"))
        if "dispatching" in inp:
            O.check_dispatching(ctx, text, kw, fail)
        if "edit" in inp and "chain" not in inp:
            O.check_edits(ctx, text, kw, fail, positions=[inp["pos"]])
        elif "deep" in inp:
            mk = O.DEEP_POSITIONS[inp["deep"]]
            out = O.deep_case(mk(inp["depth"]), inp.get("flavour", "plain"))
            if out.startswith("visit:RecursionError"):
                seen.append("raises:RecursionError:depth:%s" % inp["deep"])
        elif "cross" in inp:
            O.check_cross_kind(ctx, text, kw, fail, [inp["pos"]], ctx.rng, all_kinds=True)
        elif "nested_flat" in inp:
            O.check_chain_nested_flat(ctx, text, kw, fail, inp["chain"], inp["nested_flat"], inp["pos"], inp["style"], ctx.rng)
        elif "nested" in inp:
            O.check_chain_nested(ctx, text, kw, fail, inp["position"], inp["nested"], inp["pos"])
        elif "skips" in inp:
            O.check_chain_skips(ctx, text, kw, fail, inp["chain"], [inp["pos"]])
        elif "history" in inp:
            import random
            for sd in range(8):   # handler subsets are random: the failure does not depend on them
                O.check_class_history(ctx, text, kw, fail, inp["history"], random.Random(sd), pos=inp["pos"], act=inp["act"])
        elif "config" in inp:
            O.check_chain_configured(ctx, text, kw, fail, inp["chain"], inp["config"])
        elif "chain" in inp:
            O.check_chain(ctx, text, kw, fail, inp["chain"], [inp["pos"]] if "pos" in inp else [])
        if "transform" in inp:
            O.check_transforms(ctx, text, kw, fail)
    except Exception as e:  # noqa
        seen.append("internal:%s" % type(e).__name__)
    sig = inp.get("replay_signature", sig)
    return sig not in seen

# -*- coding: utf-8 -*-
"""
C04, deterministic slice over the OTHER entry points the property names (`py_gql.process_graphql_query`, and the generic
`Executor.execute_fields` / `resolve_field` / `complete_value` it runs, which `graphql_blocking` replaces by
BlockingExecutor): the statement quantifies over "every deterministic resolver behaviour" - a resolver that is a
coroutine completing AFTER a later sibling is one. The same fixed requests are executed

  blocking          graphql_blocking                       (BlockingExecutor; what the random streams of C04.py use)
  generic           process_graphql_query                  (generic Executor, BlockingRuntime)
  asyncio/<pattern> py_gql.graphql on a fresh event loop   (generic Executor, AsyncIORuntime) with world resolvers of which a
                    fixed subset (by pattern) is a coroutine yielding to the loop k times before answering: EARLIER fields
                    of a selection set complete LATER (`reverse`), fields alternate plain / coroutine (`mixed`), or k is a
                    hash of the response path (`hash`). No clocks: `asyncio.sleep(0)` only, so the completion order is a
                    function of the request.

and each response is compared with the SPECIFICATION (Python reference of CollectFields / ExecuteSelectionSet /
CompleteValue): ORDERED data, multiset of errors. Requests, world seeds and patterns are fixed: nothing here reads
ctx.rng, so a signature of this block is a deterministic detection.
(Independence of the result from the schedule in general - all completion orders, thread pool - is C08's property.)
"""
import json

from corr import exec_common as X

SDL = ("type Query { a: Int, s: String!, item: Item, items: [Item!], pets: [Pet], pet: Pet, u: [U!]!, lim(n: Int = 2): Int }\n"
       "type Item { id: ID, slow: String, fast: String, plain: Int!, sub: Item, tags: [String] }\n"
       "interface Pet { name: String, owner: Owner }\n"
       "type Dog implements Pet { name: String, owner: Owner, bark: Int }\n"
       "type Cat implements Pet { name: String, owner: Owner, lives: Int! }\n"
       "type Owner { name: String, phone: String, pets: [Pet!] }\n"
       "union U = Item | Owner\n")

DOCS = [
    ("flat", "{ a s first: a lim last: s }", {}),
    ("object", "{ item { slow plain fast id } a }", {}),
    ("list-fragment", "{ items { id slow ...F } last: a } fragment F on Item { fast plain }", {}),
    ("nested", "{ item { sub { slow fast sub { id plain } } tags id } s item2: item { id slow } }", {}),
    ("abstract", "{ pets { __typename name ... on Dog { bark } owner { phone name } ... on Cat { lives } } a }", {}),
    ("merged-keys", "{ pet { owner { name } n: name owner { phone pets { name } } } x: a y: lim(n: 3) }", {}),
    ("union", "{ u { __typename ... on Item { id plain } ... on Owner { name phone } } s }", {}),
    ("directives", "query($t: Boolean!, $f: Boolean!){ a @skip(if: $f) s @include(if: $t) b: a @skip(if: $t) item @include(if: $t) { id plain @skip(if: $f) } }",
     {"t": True, "f": False}),
]
SEEDS = [0, 1, 2, 3, 4, 7]
PATTERNS = ("reverse", "mixed", "hash")


def _delay(pattern, info):
    """number of times the resolver's coroutine yields to the loop before answering; 0 = plain (synchronous) resolver"""
    # position of the field among the fields of its parent type: earlier fields wait LONGER
    names = [f.name for f in info.parent_type.fields]
    pos = names.index(info.field_definition.name) if info.field_definition.name in names else 0
    h = X.fnv("/".join(str(p) for p in info.path))
    if pattern == "reverse":
        return 1 + (len(names) - pos) + (0 if info.nodes[0].alias is None else 5)     # aliased (usually later) fields: not first
    if pattern == "mixed":
        return 0 if h % 2 else 1 + h % 5
    return h % 6


def make_async_schema(pattern):
    """a Schema object like X.build's, whose world resolvers are coroutines for the fields the pattern selects"""
    import asyncio
    schema, holder, dump = X.build(SDL, 0)
    from py_gql.schema import ObjectType

    def wrap(fn):
        def resolver(root, ctx, info, **args):
            k = _delay(pattern, info)
            if k == 0:
                return fn(root, ctx, info, **args)

            async def later():
                for _ in range(k):
                    await asyncio.sleep(0)
                return fn(root, ctx, info, **args)
            return later()
        return resolver

    schema.default_resolver = wrap(schema.default_resolver)
    for t in schema.types.values():
        if isinstance(t, ObjectType) and not t.name.startswith("__"):
            for f in t.fields:
                if getattr(f, "resolver", None) is not None:
                    f.resolver = wrap(f.resolver)
    return schema, holder, dump


def asyncio_entry(schema, document, variables=None, operation_name=None):
    import asyncio
    from py_gql import graphql
    loop = asyncio.new_event_loop()
    try:
        return loop.run_until_complete(graphql(schema, document, variables=variables, operation_name=operation_name))
    finally:
        try:
            loop.run_until_complete(loop.shutdown_asyncgens())
        finally:
            loop.close()


def generic_entry(schema, document, variables=None, operation_name=None):
    from py_gql import process_graphql_query
    return process_graphql_query(schema, document, variables=variables, operation_name=operation_name)


def configs():
    """(name, schema, holder, dump, entry)"""
    out = []
    s, h, d = X.build(SDL, 0)
    out.append(("blocking", s, h, d, None))
    out.append(("generic", s, h, d, generic_entry))
    for p in PATTERNS:
        s2, h2, d2 = make_async_schema(p)
        out.append(("asyncio/" + p, s2, h2, d2, asyncio_entry))
    return out


def one(cfg, label, text, variables, seed):
    """(impl, spec) of one fixed request under one configuration"""
    from corr import C04 as K
    name, schema, holder, dump, entry = cfg
    st, ast, coerced = K.prepare(schema, text, variables, None)
    if st != "ok":
        return st, None, None
    docj = X.doc_to_json(ast, schema, coerced or {})
    holder.world = X.World(dump, seed, 0)
    impl = X.run_impl(schema, text, variables, None, entry=entry)
    spec = X.py_spec_run(dump, docj, None, coerced or {}, X.World(dump, seed, 0))
    return "ok", impl, spec


def run(ctx):
    from corr import C04 as K
    import warnings
    cfgs = configs()
    with warnings.catch_warnings():
        warnings.simplefilter("ignore")
        for label, text, variables in DOCS:
            for seed in SEEDS:
                for cfg in cfgs:
                    if ctx.time_left() < 5:
                        ctx.notes.append("runtimes slice stopped early (time)")
                        return
                    try:
                        st, impl, spec = one(cfg, label, text, variables, seed)
                    except Exception as e:  # noqa
                        ctx.stat("runtimes:harness-error:" + type(e).__name__)
                        continue
                    if st != "ok":
                        ctx.stat("runtimes:%s:%s" % (cfg[0], st))
                        continue
                    ctx.count()
                    ctx.stat("runtimes:" + cfg[0])
                    if K.nontrivial(impl):
                        ctx.nontrivial(("runtimes", cfg[0], label, seed))
                    if "internal" in impl:
                        ctx.fail("internal-exception-on-validated-operation:%s:%s" % (cfg[0].split("/")[0], impl["internal"]),
                                 "a validated operation under a typed world raised %s (%s)" % (impl["internal"], cfg[0]),
                                 {"part": "runtimes", "config": cfg[0], "label": label, "document": text, "variables": variables,
                                  "seed": seed, "impl": impl}, kind="property")
                        continue
                    if not X.results_agree(impl, spec, dedup_locs=True):
                        how = K.classify(impl, spec)
                        ctx.fail("exec-differs-from-spec:%s:%s" % (cfg[0].split("/")[0], how),
                                 "response of the real executor under configuration %s differs from the specification's algorithm (%s)"
                                 % (cfg[0], how),
                                 {"part": "runtimes", "config": cfg[0], "label": label, "document": text, "variables": variables,
                                  "seed": seed, "impl": impl, "spec": spec}, kind="property")


def replay(ctx, data):
    cfg = next((c for c in configs() if c[0] == data["config"]), None)
    if cfg is None:
        return True
    st, impl, spec = one(cfg, data.get("label"), data["document"], data.get("variables") or {}, data["seed"])
    if st != "ok":
        return True
    if "internal" in impl:
        print("execution raises", impl)
        return False
    ok = X.results_agree(impl, spec, dedup_locs=True)
    if not ok:
        print("impl:", json.dumps(impl)[:400])
        print("spec:", json.dumps(spec)[:400])
    return ok

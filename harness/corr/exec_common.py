# -*- coding: utf-8 -*-
"""
Shared by C04 / C05: resolver WORLDS (a fixed hash function that both the Python side and
the Lean model implement identically), the converter document-AST -> plain JSON, the runner
of the real pipeline with canonicalisation, and a small PYTHON REFERENCE of the
specification's execution algorithm (CollectFields / ExecuteSelectionSet / CompleteValue with
the library's documented null handling) used as the direct oracle when no Lean driver is there.

A replay is (schema SDL + enum internals, document text, variables, operation name, seed, mode).
"""
import json

from canon_schema import canon_value, dump_schema

MASK = 0xFFFFFFFF


# ---------------------------------------------------------------------------
# the world function (mirrored by lean/PyGqlModel/World.lean)
# ---------------------------------------------------------------------------

def fnv(s):
    h = 2166136261
    for b in s.encode("ascii"):
        h ^= b
        h = (h * 16777619) & MASK
    return h


def mix(h, i):
    return fnv("%d:%d" % (h, i))


LEAVES = {
    "Int": [0, 1, -7, 42, 2147483646, "12", 2147483647, -2147483648],
    "Float": [{"$float": "0.5"}, {"$float": "-2.25"}, {"$float": "3.0"}, {"$float": "1000.0"}, 2],
    "String": ["", "a", "x y", "q\"uote", True, 5],
    "Boolean": [True, False, 1, 0, "", "x"],
    "ID": ["id1", 7, "0"],
}
CUSTOM_LEAVES = [1, "s", True, -3]
WRONG = {"Int": ["zz", 2147483648, -2147483649], "Float": ["zz", {"$float": "nan"}, {"$float": "inf"}, {"$float": "-inf"}],
         "String": [[1]]}


def ty_kind(t):
    return t["k"]


class World:
    """outcome(parent type, field name, field type, path, canonical args) -> raw outcome.

    raw values: None | leaf JSON (int/str/bool/{"$float": repr}/[1]) | ("list", [raw]) | ("obj", typename)
                | ("raise", [raw], message, "list")   a lazy iterable: yields the items, then raises ResolverError
                | ("raise", [], message, "obj")       an abstract-type value whose type resolution raises ResolverError
    outcomes:   ("val", raw) | ("err", message, ext or None) | ("boom",)
    """

    _epochs = [0]

    def __init__(self, schema_d, seed, mode):
        World._epochs[0] += 1
        self.epoch = World._epochs[0]          # one World per request: marks what this request's resolvers touched
        self.d = schema_d
        self.seed = seed
        self.mode = mode  # 0 typed, 1 adversarial
        self.types = {t["name"]: t for t in schema_d["types"]}

    def possible(self, name):
        t = self.types.get(name)
        if t is None:
            return []
        if t["kind"] == "union":
            return list(t["members"])
        if t["kind"] == "interface":
            return [o["name"] for o in self.d["types"] if o["kind"] == "object" and name in o["interfaces"]]
        return []

    def outcome(self, parent, field, ftype, path, args):
        h0 = fnv("%d|%s|%s|%s|%s" % (self.seed, parent, field, "/".join(str(p) for p in path), args))
        r = mix(h0, 0) % 16
        if r == 1:
            return ("err", "E%d" % (h0 % 1000), None)
        if r == 2:
            return ("err", "E%d" % (h0 % 1000), {"code": mix(h0, 1) % 7})
        if r == 3 and self.mode == 1:
            return ("boom",)
        return ("val", self.gen(mix(h0, 2), ftype))

    def gen(self, h, t):
        if t["k"] == "nonNull":
            if mix(h, 0) % 16 == 0:
                return None
            return self.gen_nn(mix(h, 1), t["t"])
        if mix(h, 0) % 6 == 0:
            return None
        return self.gen_nn(mix(h, 1), t)

    def gen_nn(self, h, t):
        if t["k"] == "nonNull":
            return self.gen_nn(h, t["t"])
        if t["k"] == "list":
            if self.mode == 1 and mix(h, 0) % 16 == 7:
                return 5
            if self.mode == 1 and mix(h, 0) % 16 == 8:
                return "ab"             # a string at a list position is NOT iterated
            n = mix(h, 1) % 4
            items = [self.gen(mix(h, 2 + i), t["t"]) for i in range(n)]
            if mix(h, 9) % 16 == 9:
                return ("raise", items, "R%d" % (h % 1000), "list")
            return ("list", items)
        name = t["n"]
        td = self.types.get(name)
        kind = td["kind"] if td else "scalar"
        if kind == "object":
            return ("obj", name)
        if kind in ("interface", "union"):
            if mix(h, 9) % 16 == 9:
                return ("raise", [], "T%d" % (h % 1000), "obj")
            if self.mode == 1:
                a = mix(h, 0) % 4
                if a == 2:
                    return ("obj", self.d.get("query") or "Query")
                if a == 1 and mix(h, 3) % 4 == 0:
                    return ("obj", "Nope__")
            poss = self.possible(name)
            if not poss:
                return None
            return ("obj", poss[mix(h, 1) % len(poss)])
        if kind == "enum":
            if self.mode == 1 and mix(h, 0) % 16 == 4:
                return "zz__"
            vals = td["values"]
            return vals[mix(h, 1) % len(vals)]["value"]
        if self.mode == 1 and mix(h, 0) % 16 == 4 and name in WRONG:
            return WRONG[name][mix(h, 2) % len(WRONG[name])]
        table = LEAVES.get(name, CUSTOM_LEAVES)
        return table[mix(h, 1) % len(table)]


_WERR = []


def werr_class():
    """the ResolverError subclass raised by worlds (created lazily: py_gql is imported by the caller's PYGQL_REPO)"""
    if not _WERR:
        from py_gql.exc import ResolverError

        class WErr(ResolverError):
            from_world = True
        _WERR.append(WErr)
    return _WERR[0]


class RaisingTypename(object):
    """a value of an abstract type whose type resolution raises ResolverError: the default resolution reads
    ``__typename__`` (this property), an installed ``resolve_type`` reads it too"""

    def __init__(self, msg):
        self._msg = msg

    @property
    def __typename__(self):
        raise werr_class()(self._msg)


class Obj(object):
    """ONE generic Python class for the runtime values of EVERY object type: the GraphQL type name is INSTANCE state
    (a per-class memo of `__typename__` would complete all of them as the first one's type)"""

    def __init__(self, typename, **fields):
        self.__typename__ = typename
        for k, v in fields.items():
            setattr(self, k, v)


class DictSub(dict):
    """a Mapping that is not exactly `dict`"""


class PropObj(object):
    """`__typename__` as a property over instance state"""

    def __init__(self, typename):
        self._tn = typename

    @property
    def __typename__(self):
        return self._tn


OBJ_STYLES = ("dict", "Obj", "SimpleNamespace", "dict-subclass", "property", "mixed")
_OBJ_COUNTER = [0]


def make_obj(typename, style):
    """the runtime value of an object of GraphQL type `typename` (the world's resolvers ignore its content)"""
    import types as _t
    if style == 5:
        _OBJ_COUNTER[0] += 1
        style = _OBJ_COUNTER[0] % 5
    if style == 1:
        return Obj(typename)
    if style == 2:
        return _t.SimpleNamespace(__typename__=typename)
    if style == 3:
        return DictSub(__typename__=typename)
    if style == 4:
        return PropObj(typename)
    return {"__typename__": typename}


class IterOnly(object):
    """iterable through `__iter__` only (no `__len__`, no `__getitem__`); optionally raising ResolverError at the end"""

    def __init__(self, items, msg=None):
        self._items, self._msg = items, msg

    def __iter__(self):
        for x in self._items:
            yield x
        if self._msg is not None:
            raise werr_class()(self._msg)


class SeqOnly(object):
    """iterable through the SEQUENCE PROTOCOL only (`__len__` + `__getitem__`, no `__iter__`: e.g. a lazy result page);
    optionally raising ResolverError instead of IndexError after the last item"""

    def __init__(self, items, msg=None):
        self._items, self._msg = items, msg

    def __len__(self):
        return len(self._items)

    def __getitem__(self, i):
        if isinstance(i, int) and 0 <= i < len(self._items):
            return self._items[i]
        if self._msg is not None and i == len(self._items):
            raise werr_class()(self._msg)
        raise IndexError(i)


LIST_FLAVOURS = ("list", "tuple", "generator", "__iter__", "__getitem__+__len__", "dict-values", "deque", "frozenset<=1",
                 "range-if-equal", "dict-keys-if-hashable")


def _gen(items, msg):
    for x in items:
        yield x
    if msg is not None:
        raise werr_class()(msg)


def make_iterable(items, salt, msg=None):
    """the runtime value of a list position: every iterable flavour completes to the response of the equivalent list;
    with `msg`: yields the items, then raises ResolverError"""
    import collections
    k = mix(salt, 11) % len(LIST_FLAVOURS)
    if msg is not None:
        return [_gen, IterOnly, SeqOnly][k % 3](items, msg)
    if k == 1:
        return tuple(items)
    if k == 2:
        return _gen(items, None)
    if k == 3:
        return IterOnly(items)
    if k == 4:
        return SeqOnly(items)
    if k == 5:
        return dict(enumerate(items)).values()
    if k == 6:
        return collections.deque(items)
    if k == 7 and len(items) <= 1:
        try:
            return frozenset(items)
        except TypeError:
            return list(items)
    if k == 8 and items == list(range(len(items))) and not any(isinstance(x, bool) for x in items):
        return range(len(items))
    if k == 9:
        try:
            d = dict((x, None) for x in items)
            if len(d) == len(items) and not any(isinstance(x, (bool, float)) for x in items):
                return d.keys()
        except TypeError:
            pass
    return list(items)


def raw_to_py(raw, style=0, salt=0):
    """raw world value -> the Python value a resolver returns; `style` picks the Python representation of objects,
    `salt` (a hash of world seed and response path) the iterable flavour of list values"""
    if isinstance(raw, tuple):
        if raw[0] == "list":
            return make_iterable([raw_to_py(x, style, mix(salt, 20 + i)) for i, x in enumerate(raw[1])], salt)
        if raw[0] == "raise":
            if raw[3] == "list":
                return make_iterable([raw_to_py(x, style, mix(salt, 20 + i)) for i, x in enumerate(raw[1])], salt, raw[2])
            return RaisingTypename(raw[2])
        return make_obj(raw[1], style)
    if isinstance(raw, dict) and "$float" in raw:
        return float(raw["$float"])
    return raw


class WorldError(Exception):
    pass


class ArgumentLeak(WorldError):
    """a resolver received an argument object that a resolver of an EARLIER request had edited"""


class ArgumentShared(WorldError):
    """a resolver received an argument object that ANOTHER execution of this request (another parent of a list, a
    sibling alias using the same variable) had edited"""


class ResolverMixup(WorldError):
    """the resolver OBJECT registered for one field was called for another field (resolver memo keyed by ==/hash)"""


class UnhashableResolver(object):
    """a callable object that is not hashable (what a plain @dataclass with __call__ is)"""
    __hash__ = None

    def __init__(self, fn, owner):
        self.fn, self.owner = fn, owner

    def __eq__(self, other):
        return isinstance(other, UnhashableResolver) and self.owner == other.owner

    def __call__(self, root, ctx, info, **args):
        if (info.parent_type.name, info.field_definition.name) != self.owner:
            raise ResolverMixup("resolver of %s.%s called for %s.%s" % (self.owner + (info.parent_type.name, info.field_definition.name)))
        return self.fn(root, ctx, info, **args)


class EqualResolver(object):
    """hashable callable objects that all compare EQUAL (frozen dataclass with a compare=False field) but belong to
    different fields"""

    def __init__(self, fn, owner):
        self.fn, self.owner = fn, owner

    def __eq__(self, other):
        return isinstance(other, EqualResolver)

    def __hash__(self):
        return 7

    def __call__(self, root, ctx, info, **args):
        if (info.parent_type.name, info.field_definition.name) != self.owner:
            raise ResolverMixup("resolver of %s.%s called for %s.%s" % (self.owner + (info.parent_type.name, info.field_definition.name)))
        return self.fn(root, ctx, info, **args)

    def method(self, root, ctx, info, **args):        # bound methods of equal instances
        return self(root, ctx, info, **args)


MUT = "__mut_"


def _scan_marks(v, epoch, found):
    """collect the epochs of the marks present in an argument value"""
    if isinstance(v, list):
        for x in v:
            if isinstance(x, str) and x.startswith(MUT):
                found.add(x)
            else:
                _scan_marks(x, epoch, found)
    elif isinstance(v, dict):
        for k, x in v.items():
            if isinstance(k, str) and k.startswith(MUT):
                found.add(k)
            else:
                _scan_marks(x, epoch, found)


def _without_marks(v):
    if isinstance(v, list):
        return [_without_marks(x) for x in v if not (isinstance(x, str) and x.startswith(MUT))]
    if isinstance(v, dict):
        return {k: _without_marks(x) for k, x in v.items() if not (isinstance(k, str) and k.startswith(MUT))}
    return v


def _mark(v, mark):
    """what a careless resolver does to its arguments: edit the lists / dicts it was given, in place"""
    if isinstance(v, list):
        for x in v:
            _mark(x, mark)
        if mark not in v:
            v.append(mark)
    elif isinstance(v, dict):
        for k in list(v):
            _mark(v[k], mark)
        v[mark] = 1


def canon_args(kwargs):
    return json.dumps(canon_value(kwargs), sort_keys=True, ensure_ascii=True, separators=(",", ":"))


class Holder:
    """mutable cell read by the resolver installed on a Schema object"""

    def __init__(self):
        self.world = None
        self.calls = 0


def install_world(schema, holder):
    from canon_schema import ty_of
    from py_gql.schema import InterfaceType, UnionType
    from py_gql.exc import ResolverError as _ResolverError

    WErr = werr_class()

    def typename_of(value):
        if isinstance(value, dict):
            return value.get("__typename__", None)
        return getattr(value, "__typename__", None)

    def resolve_type(value, ctx, info):
        # what the default resolution does, as a user-supplied `resolve_type` (raises for RaisingTypename)
        return typename_of(value)

    def resolve_type_object(value, ctx, info):
        # the ObjectType OBJECT of the executing schema instead of its name
        name = typename_of(value)
        return schema.types.get(name, name) if isinstance(name, str) else name

    clones = []

    def resolve_type_clone_object(value, ctx, info):
        # the ObjectType object of ANOTHER schema object (a clone): mapped back by name (cf9f75a)
        name = typename_of(value)
        if not clones:
            try:
                clones.append(schema.clone())
            except Exception:  # noqa
                clones.append(schema)
        return clones[0].types.get(name, name) if isinstance(name, str) else name

    # abstract types get, by name: an explicit `resolve_type` returning the name / the type object / a clone's type
    # object; the rest keep the executor's default resolution
    for t in schema.types.values():
        if isinstance(t, (InterfaceType, UnionType)):
            k = fnv(t.name) % 4
            if k == 0:
                t.resolve_type = resolve_type
            elif k == 1:
                t.resolve_type = resolve_type_object
            elif k == 2:
                t.resolve_type = resolve_type_clone_object

    def resolver(root, ctx, info, **args):
        holder.calls += 1
        w = holder.world
        declared = {a.python_name for a in info.field_definition.arguments}
        if not set(args) <= declared:
            # fail loudly: keyword arguments this field does not declare (stale per-node caches would show up here)
            raise WorldError("undeclared keyword arguments %s for %s.%s" % (sorted(set(args) - declared), info.parent_type.name, info.field_definition.name))
        # (1) arguments are this request's own objects: nothing an earlier request's resolver did to ITS arguments
        #     (lists / dicts, e.g. schema default values) may arrive here
        #     nor what ANOTHER execution of this request did (each execution of a field coerces its own arguments)
        mark = "%s%d_%d__" % (MUT, w.epoch, fnv("/".join(str(p) for p in info.path)))
        found = set()
        _scan_marks(args, w.epoch, found)
        if found - {mark}:
            here = "%s%d_" % (MUT, w.epoch)
            if any(not m.startswith(here) for m in found):
                raise ArgumentLeak("%s.%s received an argument edited by a resolver of an earlier request"
                                   % (info.parent_type.name, info.field_definition.name))
            raise ArgumentShared("%s.%s at %s received an argument edited by another execution of the same request"
                                 % (info.parent_type.name, info.field_definition.name, "/".join(str(p) for p in info.path)))
        clean = _without_marks(args) if found else args
        o = w.outcome(info.parent_type.name, info.field_definition.name, ty_of(info.field_definition.type),
                      info.path, canon_args(clean))
        _mark(args, mark)
        # (2) the public look-ahead helper must not raise for a validated operation
        if info.nodes[0].selection_set is not None:
            info.selected_fields()
        for d in (info.nodes[0].directives or []):
            dn = d.name.value
            if dn not in ("skip", "include") and dn in info.schema.directives:
                try:
                    info.get_directive_arguments(dn)      # a value that cannot be coerced is a ResolverError (field error)
                except _ResolverError:                    # this resolver goes on without the directive
                    pass
        salt = fnv("%d|%s" % (w.seed, "/".join(str(p) for p in info.path)))
        if o[0] == "err":
            # the error object may arrive with `path` / `nodes` ALREADY set (forwarded from upstream): the response
            # carries the field's response path all the same
            k = mix(salt, 12) % 6
            preset = {0: None, 1: ["upstream", 0], 2: list(info.path), 3: [], 4: ["x"], 5: None}[k]
            # pre-set nodes: the field's first node, or its LAST one (add_error keeps nodes that are already set)
            kn = mix(salt, 13) % 4
            nodes = {0: None, 1: [info.nodes[0]], 2: [info.nodes[-1]], 3: None}[kn]
            err = WErr(o[1], nodes=nodes, path=preset, extensions=o[2])
            if nodes is not None:
                err._preset_locs = [n.loc[0] for n in nodes if n.loc]
                err._first_loc = info.nodes[0].loc[0] if info.nodes[0].loc else None
            raise err
        if o[0] == "boom":
            raise WorldError("unexpected")
        return raw_to_py(o[1], w.seed % len(OBJ_STYLES), salt)

    schema.default_resolver = resolver
    # resolver OBJECTS on one field in three: unhashable callables, callables that compare equal although they belong to
    # different fields, bound methods of equal instances; the others go through the default resolver (a function)
    from py_gql.schema import ObjectType
    for t in schema.types.values():
        if isinstance(t, ObjectType) and not t.name.startswith("__"):
            for f in t.fields:
                k = fnv("%s.%s" % (t.name, f.name)) % 9
                if k == 0:
                    f.resolver = UnhashableResolver(resolver, (t.name, f.name))
                elif k == 1:
                    f.resolver = EqualResolver(resolver, (t.name, f.name))
                elif k == 2:
                    f.resolver = EqualResolver(resolver, (t.name, f.name)).method
    return resolver


def set_enum_internals(schema, rule):
    """Give enums internal values different from their names. rule(enum name, index, value name) -> internal."""
    from py_gql.schema import EnumType
    for t in schema.types.values():
        if isinstance(t, EnumType) and not t.name.startswith("__"):
            t._set_values([(v.name, rule(t.name, i, v.name)) for i, v in enumerate(t.values)])


def enum_rule(kind):
    if kind == 0:
        return lambda e, i, n: n
    if kind == 1:
        return lambda e, i, n: i * 10 + 1
    return lambda e, i, n: "int_" + n if i % 2 else i


# ---------------------------------------------------------------------------
# document -> JSON (from Node.to_dict()), with the table of coerced arguments per parent type
# ---------------------------------------------------------------------------

def _dirs(dirs):
    out = []
    for d in dirs or []:
        cond = {"bad": 1}
        for a in d["arguments"] or []:
            if a["name"]["value"] == "if":   # dict comprehension in coerce_argument_values: last one wins
                v = a["value"]
                if v["__kind__"] == "BooleanValue":
                    cond = {"lit": bool(v["value"])}
                elif v["__kind__"] == "Variable":
                    cond = {"var": v["name"]["value"]}
                else:
                    cond = {"bad": 1}
        out.append({"name": d["name"]["value"], "if": cond})
    return out


def lit_of_ast(v):
    """argument value node (Node.to_dict()) -> the literal wire form of the C07 driver"""
    k = v["__kind__"]
    if k == "IntValue":
        return {"k": "int", "v": int(v["value"])}
    if k == "FloatValue":
        f = float(v["value"])
        cls = "nan" if f != f else ("inf" if f in (float("inf"), float("-inf")) else "finite")
        return {"k": "float", "v": v["value"], "cls": cls}
    if k == "StringValue":
        return {"k": "str", "v": v["value"]}
    if k == "BooleanValue":
        return {"k": "bool", "v": bool(v["value"])}
    if k == "NullValue":
        return {"k": "null"}
    if k == "EnumValue":
        return {"k": "enum", "v": v["value"]}
    if k == "Variable":
        return {"k": "var", "v": v["name"]["value"]}
    if k == "ListValue":
        return {"k": "list", "v": [lit_of_ast(x) for x in v["values"]]}
    if k == "ObjectValue":
        return {"k": "obj", "v": [[f["name"]["value"], lit_of_ast(f["value"])] for f in v["fields"]]}
    return {"k": "null"}


def doc_to_json(doc, schema=None, coerced_vars=None):
    """doc: py_gql Document. Returns the plain JSON form sent to the Lean side."""
    from py_gql.exc import CoercionError
    from py_gql.utilities import coerce_argument_values
    from py_gql.schema import ObjectType, InterfaceType
    d = doc.to_dict()
    # AST nodes by start offset, for the argument table
    field_nodes = {}

    def index(node):
        from py_gql.lang import ast as _ast
        if isinstance(node, _ast.Field):
            field_nodes[node.loc[0]] = node
        ss = getattr(node, "selection_set", None)
        if ss is not None:
            for s in ss.selections:
                index(s)

    for df in doc.definitions:
        index(df)
    holders = []
    if schema is not None:
        holders = [t for t in schema.types.values() if isinstance(t, ObjectType) and not t.name.startswith("__")]

    def args_table(fd):
        node = field_nodes[fd["loc"][0]]
        name = fd["name"]["value"]
        tab = {}
        for t in holders:
            f = t.field_map.get(name)
            if f is None:
                continue
            try:
                tab[t.name] = canon_args(coerce_argument_values(f, node, coerced_vars or {}))
            except CoercionError:
                tab[t.name] = {"err": 1}
            except Exception as e:  # noqa
                tab[t.name] = {"err": 1, "cls": type(e).__name__}
        return tab

    def sels(ss):
        if ss is None:
            return None
        out = []
        for s in ss["selections"]:
            k = s["__kind__"]
            if k == "Field":
                out.append({"k": "f", "key": (s["alias"] or s["name"])["value"], "name": s["name"]["value"],
                            "loc": s["loc"][0], "dirs": _dirs(s["directives"]), "sels": sels(s["selection_set"]),
                            "args": args_table(s) if schema is not None else {},
                            "argnodes": [[a["name"]["value"], lit_of_ast(a["value"])] for a in (s["arguments"] or [])]})
            elif k == "InlineFragment":
                tc = s["type_condition"]
                out.append({"k": "i", "on": tc["name"]["value"] if tc else None, "dirs": _dirs(s["directives"]),
                            "sels": sels(s["selection_set"])})
            elif k == "FragmentSpread":
                out.append({"k": "s", "name": s["name"]["value"], "dirs": _dirs(s["directives"])})
        return out

    ops, frags = [], []
    for df in d["definitions"]:
        if df["__kind__"] == "OperationDefinition":
            ops.append({"op": df["operation"], "name": df["name"]["value"] if df["name"] else None,
                        "sels": sels(df["selection_set"])})
        elif df["__kind__"] == "FragmentDefinition":
            frags.append({"name": df["name"]["value"], "on": df["type_condition"]["name"]["value"],
                          "sels": sels(df["selection_set"])})
    return {"ops": ops, "frags": frags}


# ---------------------------------------------------------------------------
# running the real pipeline, canonical results
# ---------------------------------------------------------------------------

def canon_data(v):
    """ordered canonical form of response data (dict order kept; floats tagged)"""
    if isinstance(v, float):
        return {"$float": repr(v)}
    if isinstance(v, dict):
        return {str(k): canon_data(x) for k, x in v.items()}
    if isinstance(v, (list, tuple)):
        return [canon_data(x) for x in v]
    if v is None or isinstance(v, (bool, int, str)):
        return v
    return {"$repr": type(v).__name__}


def ordered_dump(v):
    return json.dumps(v, ensure_ascii=True, separators=(",", ":"))


def canon_error(e):
    from py_gql.exc import CoercionError
    locs = [n.loc[0] for n in (getattr(e, "nodes", None) or []) if getattr(n, "loc", None)]
    path = list(e.path) if getattr(e, "path", None) is not None else None
    if getattr(e, "from_world", False):
        kind = "resolver"
        if getattr(e, "_preset_locs", None) is not None:
            # the resolver raised the error with `nodes` already set: they are kept; canonicalised to the field's node,
            # which is what the model records
            if locs == e._preset_locs:
                locs = [e._first_loc] if e._first_loc is not None else locs
            else:
                kind = "resolver:preset-nodes-not-kept"
        return {"kind": kind, "path": path, "locs": locs, "msg": e.message,
                "ext": canon_value(dict(e.extensions)) if e.extensions else None}
    if isinstance(e, CoercionError):
        return {"kind": "coercion", "path": path, "locs": locs, "msg": None, "ext": None}
    if isinstance(getattr(e, "__cause__", None), CoercionError):
        # `ResolutionContext.collect_fields`: invalid @skip/@include condition at run time (4e87d3d). Its nodes are the
        # directive argument's (not modelled); no path when the ROOT selection set could not be collected.
        return {"kind": "directive", "path": path if path is not None else [], "locs": [], "msg": None, "ext": None}
    return {"kind": "nonnull", "path": path, "locs": locs, "msg": None, "ext": None}


def err_key(e, dedup_locs=False):
    locs = e["locs"]
    if dedup_locs:
        locs = sorted(set(locs))
    return json.dumps([e["path"], locs, e["kind"], e["msg"], e["ext"]], sort_keys=True)


def errors_multiset(errs, dedup_locs=False):
    return sorted(err_key(e, dedup_locs) for e in errs)


def run_impl(schema, document, variables, opname, validate=True, entry=None):
    """Execute on the real code. Returns a canonical dict:
       {"data": ..., "errors": [...]} | {"abort": kind} | {"internal": class name} | {"invalid": n}
       `entry` (optional, default graphql_blocking): another entry point with the same keyword interface returning a
       GraphQLResult (process_graphql_query on the blocking runtime, a driver of `graphql` on an asyncio loop, ...)"""
    from py_gql import graphql_blocking
    from py_gql.exc import (GraphQLSyntaxError, ValidationError, ExecutionError, VariableCoercionError)
    try:
        r = (entry or graphql_blocking)(schema, document, variables=variables, operation_name=opname)
    except ResolverMixup:
        return {"internal": "ResolverOfAnotherFieldCalled"}
    except ArgumentLeak:
        return {"internal": "ArgumentLeakedFromEarlierRequest"}
    except ArgumentShared:
        return {"internal": "ArgumentSharedBetweenExecutions"}
    except WorldError:
        return {"internal": "unexpected"}
    except RecursionError:
        return {"internal": "RecursionError"}
    except Exception as e:  # noqa
        return {"internal": type(e).__name__, "msg": str(e)[:200]}
    errs = list(r.errors)
    from py_gql.execution.wrappers import _UNSET
    if r.data is _UNSET or (r.data is None and errs and not any(getattr(e, "path", None) is not None or getattr(e, "from_world", False) for e in errs)
                            and any(isinstance(e, (ExecutionError, VariableCoercionError, ValidationError, GraphQLSyntaxError)) for e in errs)):
        kinds = set()
        for e in errs:
            if isinstance(e, GraphQLSyntaxError):
                kinds.add("syntax")
            elif isinstance(e, ValidationError):
                kinds.add("validation")
            elif isinstance(e, VariableCoercionError):
                kinds.add("variables")
            elif isinstance(e, ExecutionError):
                kinds.add("operation")
            else:
                kinds.add("other:" + type(e).__name__)
        return {"abort": "+".join(sorted(kinds)), "data_present": r.data is not _UNSET}
    return {"data": canon_data(r.data), "errors": [canon_error(e) for e in errs]}


# ---------------------------------------------------------------------------
# PYTHON REFERENCE of the specification (direct oracle; independent of the library's executor)
# ---------------------------------------------------------------------------

class SpecInternal(Exception):
    pass


class SpecRaise(Exception):
    """a field error raised while a value is COMPLETED (or while its selection set is collected): it nulls the nearest
    enclosing field; errors recorded before stay recorded"""

    def __init__(self, kind, msg=None, ext=None, locs=None):
        Exception.__init__(self, kind)
        self.kind, self.msg, self.ext, self.locs = kind, msg, ext, locs


def truthy(v):
    return bool(v)


class PySpec:
    def __init__(self, schema_d, docj, variables, world):
        self.d = schema_d
        self.types = {t["name"]: t for t in schema_d["types"]}
        self.doc = docj
        self.frags = {}
        for f in docj["frags"]:
            self.frags[f["name"]] = f   # later definition wins (Document.fragments is a dict comprehension)
        self.vars = variables
        self.world = world
        self.errors = []

    # --- CollectFields (June 2018 §6.3.2) with visitedFragments
    def skipped(self, dirs):
        skip = next((d for d in dirs if d["name"] == "skip"), None)
        inc = next((d for d in dirs if d["name"] == "include"), None)

        def val(d):
            c = d["if"]
            if "lit" in c:
                return c["lit"]
            if "var" in c and c["var"] in self.vars and self.vars[c["var"]] is not None:
                return truthy(self.vars[c["var"]])
            raise SpecInternal("CoercionError")     # not a Boolean at run time: list literal, variable bound to null
        s = skip is not None and val(skip)
        i = inc is None or val(inc)
        return s or not i

    def applies(self, obj, cond):
        if cond is None:
            return True
        t = self.types.get(cond)
        if t is None:
            if cond in ("Int", "Float", "String", "Boolean", "ID"):
                return False
            raise SpecInternal("UnknownType")
        if cond == obj:
            return True
        return t["kind"] in ("interface", "union") and obj in self.world.possible(cond)

    def collect(self, obj, sels, visited, grouped=None):
        grouped = {} if grouped is None else grouped
        for s in sels:
            if s["k"] == "f":
                if self.skipped(s["dirs"]):
                    continue
                grouped.setdefault(s["key"], []).append(s)
            elif s["k"] == "s":
                if s["name"] not in self.frags:
                    raise SpecInternal("KeyError")
                if self.skipped(s["dirs"]):
                    continue
                if s["name"] in visited:
                    continue
                visited.add(s["name"])
                fr = self.frags[s["name"]]
                if not self.applies(obj, fr["on"]):
                    continue
                self.collect(obj, fr["sels"], visited, grouped)
            else:
                if self.skipped(s["dirs"]):
                    continue
                if not self.applies(obj, s["on"]):
                    continue
                self.collect(obj, s["sels"], visited, grouped)
        return grouped

    def field_def(self, obj, name):
        if name == "__typename":
            return {"name": "__typename", "type": {"k": "nonNull", "t": {"k": "named", "n": "String"}}, "meta": True}
        if name in ("__schema", "__type"):
            raise SpecInternal("introspection-not-modelled")
        for f in self.types[obj]["fields"]:
            if f["name"] == name:
                return f
        return None

    def execute_selection_set(self, obj, sels, path):
        try:
            grouped = self.collect(obj, sels, set())
        except SpecInternal as e:
            if str(e) == "CoercionError":
                raise SpecRaise("directive", locs=[])
            raise
        out = {}
        for key, nodes in grouped.items():
            fd = self.field_def(obj, nodes[0]["name"])
            if fd is None:
                continue
            out[key] = self.execute_field(obj, fd, nodes, path + [key])
        return out

    def execute_field(self, obj, fd, nodes, path):
        node = nodes[0]
        if fd.get("meta"):
            return self.complete(fd["type"], nodes, path, obj)
        a = node["args"].get(obj)
        if a is None or isinstance(a, dict):
            self.errors.append({"kind": "coercion", "path": path, "locs": [node["loc"]], "msg": None, "ext": None})
            return None
        o = self.world.outcome(obj, fd["name"], fd["type"], path, a)
        if o[0] == "err":
            self.errors.append({"kind": "resolver", "path": path, "locs": [node["loc"]], "msg": o[1], "ext": o[2]})
            return None
        if o[0] == "boom":
            raise SpecInternal("unexpected")
        try:
            return self.complete(fd["type"], nodes, path, o[1])
        except SpecRaise as e:
            self.errors.append({"kind": e.kind, "path": path, "locs": e.locs if e.locs is not None else [node["loc"]],
                                "msg": e.msg, "ext": e.ext})
            return None

    def complete(self, t, nodes, path, raw):
        if t["k"] == "nonNull":
            r = self.complete(t["t"], nodes, path, raw)
            if r is None:
                locs = []
                for n in nodes:
                    if n["loc"] not in locs:
                        locs.append(n["loc"])
                self.errors.append({"kind": "nonnull", "path": path, "locs": locs, "msg": None, "ext": None})
            return r
        if raw is None:
            return None
        if t["k"] == "list":
            if isinstance(raw, tuple) and raw[0] == "raise" and raw[3] == "list":
                for i, x in enumerate(raw[1]):
                    self.complete(t["t"], nodes, path + [i], x)
                raise SpecRaise("resolver", raw[2])
            if not (isinstance(raw, tuple) and raw[0] == "list"):
                raise SpecInternal("RuntimeError")
            return [self.complete(t["t"], nodes, path + [i], x) for i, x in enumerate(raw[1])]
        name = t["n"]
        td = self.types.get(name)
        kind = td["kind"] if td else ("scalar" if name in LEAVES else None)
        if kind is None:
            raise SpecInternal("TypeError")
        if kind == "scalar":
            return self.serialize(name, raw)
        if kind == "enum":
            for v in td["values"]:
                if v["value"] == raw and type(v["value"]) == type(raw):
                    return v["name"]
            raise SpecInternal("RuntimeError")
        if kind in ("interface", "union"):
            if isinstance(raw, tuple) and raw[0] == "raise":
                raise SpecRaise("resolver", raw[2])
            if not (isinstance(raw, tuple) and raw[0] == "obj"):
                raise SpecInternal("RuntimeError")
            rt = raw[1]
            if rt not in self.types:
                raise SpecInternal("UnknownType")
            if self.types[rt]["kind"] != "object" or rt not in self.world.possible(name):
                raise SpecInternal("RuntimeError")
        elif kind == "object":
            rt = name
        else:
            raise SpecInternal("TypeError")
        merged = []
        seen_nodes = []
        for n in nodes:
            if n["loc"] in seen_nodes:
                continue
            seen_nodes.append(n["loc"])
            merged += n["sels"] or []
        return self.execute_selection_set(rt, merged, path)

    def serialize(self, name, raw):
        isf = isinstance(raw, dict) and "$float" in raw
        if isinstance(raw, tuple):
            raise SpecInternal("RuntimeError")
        if name == "Int":
            if isinstance(raw, bool):
                return int(raw)          # coerce_int since d72dd53: True / False are the integers 1 / 0 (JSON 1 / 0)
            if isinstance(raw, int):
                n = raw
            elif isinstance(raw, str) and raw.lstrip("-").isdigit() and raw.isascii():
                n = int(raw)
            else:
                raise SpecInternal("RuntimeError")
            if not (-2 ** 31 <= n <= 2 ** 31 - 1):
                raise SpecInternal("RuntimeError")
            return n
        if name == "Float":
            if isf and raw["$float"] in ("nan", "inf", "-inf"):
                raise SpecInternal("RuntimeError")      # X2: non-finite floats cannot be serialised
            if isf:
                return raw
            if isinstance(raw, int) and not isinstance(raw, bool):
                return {"$float": repr(float(raw))}
            raise SpecInternal("RuntimeError")
        if name == "String":
            if isinstance(raw, bool):
                return "true" if raw else "false"
            if isinstance(raw, int):
                return str(raw)
            if isinstance(raw, str):
                return raw
            if isf:
                return raw["$float"]
            raise SpecInternal("RuntimeError")
        if name == "Boolean":
            if isf:
                return float(raw["$float"]) != 0
            return bool(raw)
        if name == "ID":
            if isinstance(raw, (bool, int, str)):
                return str(raw)
            if isf:
                return raw["$float"]
            raise SpecInternal("RuntimeError")
        return raw   # custom scalar: identity


def get_operation_j(docj, opname):
    ops = docj["ops"]
    if not ops:
        return None
    if not opname:
        return ops[0] if len(ops) == 1 else None
    for o in ops:
        if o["name"] == opname:
            return o
    return None


def py_spec_run(schema_d, docj, opname, variables, world):
    op = get_operation_j(docj, opname)
    if op is None:
        return {"abort": "operation"}
    root = {"query": schema_d.get("query"), "mutation": schema_d.get("mutation"),
            "subscription": schema_d.get("subscription")}.get(op["op"])
    if root is None:
        return {"abort": "operation"}
    if op["op"] == "subscription":
        return {"abort": "operation"}
    sp = PySpec(schema_d, docj, variables, world)
    try:
        data = sp.execute_selection_set(root, op["sels"], [])
    except SpecRaise as e:
        # the root selection set cannot be collected: no data, one error without path
        return {"data": None, "errors": sp.errors + [{"kind": e.kind, "path": [], "locs": e.locs or [], "msg": e.msg, "ext": e.ext}]}
    except SpecInternal as e:
        return {"internal": str(e)}
    except RecursionError:
        return {"internal": "RecursionError"}
    return {"data": data, "errors": sp.errors}


def build(sdl, enum_kind=0):
    """Schema object from SDL with a world holder installed. Returns (schema, holder, dump)."""
    from py_gql import build_schema
    schema = build_schema(sdl)
    if enum_kind:
        # enums with internal values different from their names, the library's own way: the enum types are given as
        # `additional_types`, so that SDL DEFAULT values typed with them are coerced to the internal values
        # (changing the values after the build would leave the names in the defaults: an invalid schema since 7cadcb0)
        from py_gql.schema import EnumType, EnumValue
        rule = enum_rule(enum_kind)
        enums = [EnumType(t.name,
                          [EnumValue(v.name, rule(t.name, i, v.name), deprecation_reason=v.deprecation_reason,
                                     description=v.description, node=v.node) for i, v in enumerate(t.values)],
                          description=t.description, nodes=getattr(t, "nodes", None))
                 for t in schema.types.values() if isinstance(t, EnumType) and not t.name.startswith("__")]
        if enums:
            schema = build_schema(sdl, additional_types=enums)
    holder = Holder()
    install_world(schema, holder)
    return schema, holder, dump_schema(schema)


def results_agree(a, b, dedup_locs=False):
    """compare two canonical results: ORDERED data, error multiset (path, locations, kind)"""
    if ("data" in a) != ("data" in b):
        if "internal" in a and "internal" in b:
            return True
        return False
    if "data" in a:
        return (ordered_dump(a["data"]) == ordered_dump(b["data"])
                and errors_multiset(a["errors"], dedup_locs) == errors_multiset(b["errors"], dedup_locs))
    if "internal" in a or "internal" in b:
        return "internal" in a and "internal" in b
    return a.get("abort") == b.get("abort")

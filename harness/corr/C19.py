# -*- coding: utf-8 -*-
"""
C19 — depth limiting flags exactly the operations deeper than the limit.

Real code:  MaxDepthValidationRule(limit, operation_name=f)(schema, document, variables), the same
            through validate_ast(..., validators=[rule]), and selected_fields(...) (paths).
Lean model: Driver/C19.lean  (PyGqlModel/Depth.lean: collectFieldsUntyped, selectedFields, rule / ruleOrig)
Lean spec:  PyGqlModel/Spec/DepthSpec.lean: depth
Direct oracle (the statement): flagged(o) <=> selected by the filter and spec depth(o) > limit; nothing raised;
            wrapping selections in inline fragments / named fragments never lowers the measured depth.
"""
import itertools
import json
import re

PROPERTY = "C19"
RULE = ("[selected_fields has its own direct oracle: listed path set = reference path set for maxdepth None/0/1/2/3 and fnmatch patterns; "
        "the rule is also driven through graphql_blocking(validators=[rule]) with request variables; HISTORIES: one parsed Document and one "
        "rule instance per (limit, filter) reused over 8-14 calls with varying variables / filters / limits, each result = fresh instance on a "
        "freshly parsed document = specification] ""documents = a base selection tree over `type Query {a: Query b: Query c: Int d(i: Int): Int}` (aliases x->a, y->b, z->c so "
        "equal response keys are always mergeable), distributed over inline fragments (typed/untyped) and named fragments: "
        "EXHAUSTIVE for two small base operations (every partition of every selection list into contiguous blocks, each "
        "block plain / inline / spread), SAMPLED for larger ones (1-3 operations, shared fragments, @skip/@include with "
        "literal and variable conditions at every node kind, all variable assignments); every document is validated with the "
        "full default rule set first. Each document is checked for limits 0..8 x filters {none, each operation name, "
        "unknown name, ''}. non-trivial = distinct (document, variables) with spec depth >= 1 for some operation or with a "
        "fragment/directive at the top of an operation")
ASSUMPTIONS = [
    "variables: the request supplies a bool for every REQUIRED directive variable; variables declared with a default may be omitted "
    "(the specification is evaluated with what coerce_variable_values gives the operation: C19-Q1vars.patch makes the rule do the same)",
    "request variables that do not coerce: JSON kinds bool / null / int / non-float strings / arrays / objects against Boolean and Int "
    "variables (float forms and other scalar types are not generated; the model's `coerceScalar` does not cover them); when a directive "
    "variable is unavailable in the mapping the rule falls back to, the rule raises CoercionError: known finding Q1-vars2",
    "documents are valid (parsed by py_gql.lang.parse and accepted by the default validation rules; NoUnusedVariables is left out "
    "because defect V4 of the unchanged tree reports variables used through nested fragments as unused): fragments acyclic and defined, "
    "unique fragment names, @skip/@include conditions are Boolean literals or variables",
    "named divergence: the model has no interpreter stack. With C19-Q3.patch the DEPTH is not limited by it any more (acyclic chains "
    "500..3000 levels deep are measured exactly: deep-chain probe); what remains is the nesting WRITTEN in one selection / the fragment "
    "expansions nested within ONE level beyond CPython's recursion limit (the parser fails first, P1): the rule reports `nested too "
    "deep to be measured`, the model measures it",
    "type conditions are ignored by the untyped collection and by the specification alike (depth is an upper bound over all runtime types)",
]
TRUSTED = [
    "the loop of `_nesting_levels` is modelled AS WRITTEN (re-extracted shape: `levelFrontier` -> `nestingLevelsF`, a frontier of selection "
    "lists per level; `levelMerged` -> `nestingLevelsM`, one list per level, proposed fix C19-H3; neither -> the recursive versions) and proved "
    "equal to the recursive measure on acyclic documents (frontier_eq_recursive / merged_eq_recursive, ruleF_eq_ruleB / ruleM_eq_ruleB); not "
    "modelled: the `id`-based de-duplication inside one level (`seen`), which drops an entry made of the same node objects as an earlier entry "
    "of the level - argued result-transparent (same arguments, same outcome), exercised by every stream",
    "the Lean model of the rule is a pure function of (limit, filter, document, variables): that the implementation keeps no state "
    "between calls (instance, Document nodes, module) is checked by the history stream, not proved",
    "harness/corr/C19.py: conversion of the parsed py_gql AST into the minimal JSON document of Driver/C19.lean (checked on every "
    "generated document against the generator's own tree) and the Python reference depth (cross-checked against the Lean spec on every case)",
    "Lean `Doc.fuel`/`acyclic` are computed from the fragment weights; `acyclic` is compared with the NoFragmentCycles verdict of the real validator on every document",
]
EXPLANATION = ("Theorems are proved for the code AFTER proposed_fixes/C19-Q1.patch (integrated), C19-Q1sf.patch (selected_fields descends "
               "into merged same-key sub-selections) and C19-Q1vars.patch (variables passed to validators and coerced per operation): models "
               "`rule`/`ruleV`/`selectedFields`. The models of the unchanged code (`ruleOrig`, `selectedFieldsOrig`, `rule` on raw variables) carry "
               "the machine-checked refutations. The correspondence compares the model of whichever variant the tree under test contains "
               "(detected from the source: `_nesting_levels`, `_selected_paths`, `coerce_variable_values` in max_depth.py).")

LIMITS = list(range(0, 9))
MAXDEPTHS = [0, 1, 2, 3]
SDL = "type Query { a: Query  b: Query  c: Int  d(i: Int): Int }"
OBJ = [("a", None), ("b", None), ("a", "x"), ("b", "y")]
LEAF = [("c", None), ("d", None), ("c", "z")]
VARS = ["v0", "v1", "v2"]


# ----------------------------------------------------------------------------- trees (wire format)

def nod():
    return {"skip": None, "incl": None}


def F(name, sub=(), alias=None, d=None):
    return {"k": "f", "a": alias, "n": name, "d": d or nod(), "s": list(sub)}


def I(sub, d=None, typed=False):
    return {"k": "i", "d": d or nod(), "s": list(sub), "t": typed}


def S(name, d=None):
    return {"k": "s", "n": name, "d": d or nod()}


def strip(x):
    """wire form: drop generator-only keys"""
    if isinstance(x, list):
        return [strip(y) for y in x]
    if isinstance(x, dict):
        return {k: strip(v) for k, v in x.items() if k not in ("t", "arg", "xv")}
    return x


def p_cond(c):
    return "true" if c.get("lit") is True else "false" if c.get("lit") is False else "$" + c["var"]


def p_dirs(d):
    out = ""
    if d["skip"] is not None:
        out += " @skip(if: %s)" % p_cond(d["skip"])
    if d["incl"] is not None:
        out += " @include(if: %s)" % p_cond(d["incl"])
    return out


def p_sels(sels):
    return "{ " + " ".join(p_sel(s) for s in sels) + " }"


def p_sel(s):
    if s["k"] == "f":
        return (("%s: " % s["a"] if s["a"] else "") + s["n"] + ("(i: $%s)" % s["arg"] if s.get("arg") else "") + p_dirs(s["d"])
                + (" " + p_sels(s["s"]) if s["s"] else ""))
    if s["k"] == "i":
        return "..." + (" on Query" if s.get("t") else "") + p_dirs(s["d"]) + " " + p_sels(s["s"])
    return "..." + s["n"] + p_dirs(s["d"])


def vars_in(sels, frags, seen=None):
    seen = set() if seen is None else seen
    out = set()
    for s in sels:
        for c in (s["d"]["skip"], s["d"]["incl"]):
            if c is not None and "var" in c:
                out.add(c["var"])
        if s["k"] in "fi":
            out |= vars_in(s["s"], frags, seen)
        elif s["n"] not in seen:
            seen.add(s["n"])
            fr = [f for f in frags if f["name"] == s["n"]]
            if fr:
                out |= vars_in(fr[-1]["sels"], frags, seen)
    return out


def decl_of(defaults, v):
    """declared default of variable v: None = required `Boolean!`, else the bool default"""
    if isinstance(defaults, dict):
        return defaults.get(v)
    return True if defaults else None


def decl_suffix(defaults, v):
    d = decl_of(defaults, v)
    return "!" if d is None else (" = true" if d else " = false")


def wire_doc(doc, defaults=False):
    """the document as sent to the Lean driver: + variable definitions per operation"""
    out = strip(doc)
    for o in out["ops"]:
        o["vd"] = [{"n": v, "ty": "b", "nn": decl_of(defaults, v) is None, "d": decl_of(defaults, v)}
                   for v in sorted(vars_in(o["sels"], doc["frags"]))]
    for o, src in zip(out["ops"], doc["ops"]):
        o["vd"] = sorted(o["vd"] + [dict(x) for x in src.get("xv", [])], key=lambda x: x["n"])
    return out


def p_doc(doc, defaults=False):
    parts = []
    for op in doc["ops"]:
        vs = sorted(vars_in(op["sels"], doc["frags"]))
        decls = ["$%s: Boolean%s" % (v, decl_suffix(defaults, v)) for v in vs]
        decls += ["$%s: Int%s%s" % (x["n"], "!" if x["nn"] else "", "" if x["d"] is None else " = %d" % x["d"]) for x in op.get("xv", [])]
        decl = "(" + ", ".join(decls) + ")" if decls else ""
        head = "query %s%s " % (op["name"], decl) if op["name"] else ("query %s " % decl if decl else "")
        parts.append(head + p_sels(op["sels"]))
    for f in doc["frags"]:
        parts.append("fragment %s on Query %s" % (f["name"], p_sels(f["sels"])))
    return "\n".join(parts)


# ----------------------------------------------------------------------------- real AST -> wire JSON

def conv_doc(document):
    from py_gql.lang import ast as A

    def cond(node, name):
        for d in node.directives:
            if d.name.value == name:          # find_one: the first
                for a in d.arguments:
                    if a.name.value == "if":
                        v = a.value
                        if isinstance(v, A.Variable):
                            return {"var": v.name.value}
                        if isinstance(v, A.BooleanValue):
                            return {"lit": bool(v.value)}
                return None
        return None

    def dirs(node):
        return {"skip": cond(node, "skip"), "incl": cond(node, "include")}

    def sels(ss):
        return [sel(s) for s in ss.selections] if ss is not None else []

    def sel(s):
        if isinstance(s, A.Field):
            return {"k": "f", "a": s.alias.value if s.alias else None, "n": s.name.value, "d": dirs(s), "s": sels(s.selection_set)}
        if isinstance(s, A.InlineFragment):
            return {"k": "i", "d": dirs(s), "s": sels(s.selection_set)}
        return {"k": "s", "n": s.name.value, "d": dirs(s)}

    ops, frags = [], []
    for d in document.definitions:
        if isinstance(d, A.OperationDefinition):
            vd = []
            for v in d.variable_definitions:
                dv = v.default_value
                ty = v.type.type if isinstance(v.type, A.NonNullType) else v.type
                vd.append({"n": v.variable.name.value, "ty": "i" if getattr(getattr(ty, "name", None), "value", "") == "Int" else "b",
                           "nn": isinstance(v.type, A.NonNullType),
                           "d": bool(dv.value) if isinstance(dv, A.BooleanValue) else (int(dv.value) if isinstance(dv, A.IntValue) else None)})
            ops.append({"name": d.name.value if d.name else None, "sels": sels(d.selection_set),
                        "vd": sorted(vd, key=lambda x: x["n"])})
        elif isinstance(d, A.FragmentDefinition):
            frags.append({"name": d.name.value, "sels": sels(d.selection_set)})
    return {"ops": ops, "frags": frags}


# ----------------------------------------------------------------------------- reference spec (Python)

SEPARATE = [False]   # set by run() / replay(): the tree evaluates @skip and @include on their own (proposed fix C19-H4)


def is_skipped(d, vs, separate=None):
    """reference semantics; a condition that cannot be evaluated (its variable is unavailable in `vs`) decides nothing.
       `separate` (default: what the tree under test does, `is_separate_directives_tree`): the two directives are read on their own -
       the selection is skipped as soon as ONE evaluable directive excludes it (three-valued reading, the tight upper bound over the
       unknown condition); otherwise the reading of C19-Q1vars2 as implemented today: ONE unevaluable condition keeps the selection
       whatever the other directive says."""
    separate = SEPARATE[0] if separate is None else separate

    def known(c):
        return "lit" in c or c["var"] in vs

    def val(c):
        return c["lit"] if "lit" in c else bool(vs.get(c["var"], False))
    if separate:
        return ((d["skip"] is not None and known(d["skip"]) and val(d["skip"]))
                or (d["incl"] is not None and known(d["incl"]) and not val(d["incl"])))
    if any(c is not None and not known(c) for c in (d["skip"], d["incl"])):
        return False
    return (d["skip"] is not None and val(d["skip"])) or (d["incl"] is not None and not val(d["incl"]))


INF = float("inf")


def ref_levels(sels, frags, vs, path=frozenset()):
    """reference levels; a selected fragment cycle (a fragment re-entered while it is being expanded, at the same level or
       through fields) makes the nesting unbounded: INF"""
    best = 0
    for s in sels:
        if is_skipped(s["d"], vs):
            continue
        if s["k"] == "f":
            best = max(best, 1 + ref_levels(s["s"], frags, vs, path))
        elif s["k"] == "i":
            best = max(best, ref_levels(s["s"], frags, vs, path))
        else:
            if s["n"] in path:
                return INF
            fr = [f for f in frags if f["name"] == s["n"]]
            if fr:
                best = max(best, ref_levels(fr[-1]["sels"], frags, vs, path | {s["n"]}))
    return best


class PerOp(list):
    """per-operation variable views (each operation is evaluated with ITS coerced variables, or with the raw ones)"""


def vs_of(vs, i):
    return vs[i] if isinstance(vs, PerOp) else vs


def ref_depth(doc, i, vs):
    return max(0, ref_levels(doc["ops"][i]["sels"], doc["frags"], vs_of(vs, i)) - 1)


MAX_INT, MIN_INT = 2147483647, -2147483648


def py_coerce(vd, raw):
    """reference for coerce_variable_values on Boolean / Int variables (GraphQL input coercion as py-gql implements it for
       the JSON kinds the generator uses); None = the variables do not coerce"""
    out = {}
    for d in vd:
        n = d["n"]
        if n not in raw:
            if d["d"] is not None:
                out[n] = d["d"]
            elif d["nn"]:
                return None
            continue
        v = raw[n]
        if v is None:
            if d["nn"]:
                return None
            out[n] = None
        elif d["ty"] == "b":
            if isinstance(v, (list, dict)):
                return None
            out[n] = bool(v)
        else:
            if isinstance(v, bool):
                out[n] = int(v)
            elif isinstance(v, int):
                if not (MIN_INT <= v <= MAX_INT):
                    return None
                out[n] = v
            elif isinstance(v, str):
                try:
                    k = int(v, 10)
                except ValueError:
                    return None
                if not (MIN_INT <= k <= MAX_INT):
                    return None
                out[n] = k
            else:
                return None
    return out


def py_view(mapping):
    """what _skip_selection sees: available (non-null) values by truthiness"""
    return {k: bool(v) for k, v in mapping.items() if v is not None}


def effective_views(doc, defaults, raw):
    """PerOp views + per operation: did the variables coerce? is a directive variable it needs unavailable?"""
    w = wire_doc(doc, defaults)
    views, coerced_ok, unavailable = PerOp(), [], []
    for o, src in zip(w["ops"], doc["ops"]):
        c = py_coerce(o["vd"], raw)
        coerced_ok.append(c is not None)
        view = py_view(c if c is not None else raw)
        views.append(view)
        unavailable.append(sorted(v for v in vars_in(src["sels"], doc["frags"]) if v not in view))
    return views, coerced_ok, unavailable


def ref_paths(sels, frags, vs, maxdepth, prefix=()):
    """reference for selected_fields: every path of field NAMES (through fragments, @skip/@include honoured) with at most
       `maxdepth` components (None/0 = unbounded), as a set of tuples"""
    out = set()
    for s in sels:
        if is_skipped(s["d"], vs, separate=False):
            continue
        if s["k"] == "f":
            p = prefix + (s["n"],)
            out.add(p)
            if not maxdepth or len(p) < maxdepth:
                out |= ref_paths(s["s"], frags, vs, maxdepth, p)
        elif s["k"] == "i":
            out |= ref_paths(s["s"], frags, vs, maxdepth, prefix)
        else:
            fr = [f for f in frags if f["name"] == s["n"]]
            if fr:
                out |= ref_paths(fr[-1]["sels"], frags, vs, maxdepth, prefix)
    return out


PATTERNS = [None, "a/*", "*/c", "b"]
LENIENT_SF = [False]      # set by run(): the tree's `_selected_paths` keeps selections whose condition cannot be evaluated


def paths_failure(real, case, document):
    """direct oracle on selected_fields itself: the set of listed paths = the reference set (complete and sound), for every
       direct Field child of every operation, maxdepth in {None,0,1,2,3}, a few fnmatch patterns"""
    import fnmatch
    import re
    doc, vs, rvs = case.doc, case.vs, case.vs       # selected_fields is given coerced variables by its callers
    ops = [d for d in document.definitions if isinstance(d, real.A.OperationDefinition)]
    for i, (op, rop) in enumerate(zip(doc["ops"], ops)):
        fields = [s for s in op["sels"] if s["k"] == "f"]
        rfields = [s for s in rop.selection_set.selections if isinstance(s, real.A.Field)]
        if isinstance(case.vs, PerOp):
            vs = rvs = case.vs[i]
        for fj, (f, rf) in enumerate(zip(fields, rfields)):
            for md in (None, 0, 1, 2, 3):
                ref = ref_paths(f["s"], doc["frags"], vs, md)
                for pat in (PATTERNS if md in (None, 2) else [None]):
                    try:
                        got = real.selected_fields(rf, fragments=document.fragments, variables=rvs, maxdepth=md, pattern=pat)
                    except Exception as e:  # noqa
                        return ("paths-raises:" + type(e).__name__, i, {"field_index": fj, "maxdepth": md, "pattern": pat})
                    want = ref if pat is None else {p for p in ref if re.match(fnmatch.translate(pat), "/".join(p))}
                    gots = {tuple(p.split("/")) for p in got}
                    if gots != want:
                        missing = sorted("/".join(p) for p in want - gots)
                        extra = sorted("/".join(p) for p in gots - want)
                        return ("paths-missing" if missing else "paths-extra", i,
                                {"field_index": fj, "maxdepth": md, "pattern": pat, "missing": missing[:5], "extra": extra[:5]})
    return None


def features(doc, i, vs):
    """structural features naming a failure class (computed on the shrunk case)"""
    op = doc["ops"][i]
    fs = set()
    vs = vs_of(vs, i)
    lv = ref_levels(op["sels"], doc["frags"], vs)
    if lv <= 1:
        fs.add("flat")
    if any(s["k"] == "i" for s in op["sels"]):
        fs.add("top-inline")
    if any(s["k"] == "s" for s in op["sels"]):
        fs.add("top-spread")
    if any(s["k"] == "f" and (s["d"]["skip"] or s["d"]["incl"]) for s in op["sels"]):
        fs.add("top-field-directive")

    def walk(sels):
        keys = {}
        stack = list(sels)
        seen = set()
        while stack:                      # one merged scope
            s = stack.pop(0)
            if s["k"] == "f":
                keys.setdefault(s["a"] or s["n"], []).append(s)
            elif s["k"] == "i":
                stack = s["s"] + stack
            elif s["n"] not in seen:
                seen.add(s["n"])
                fr = [f for f in doc["frags"] if f["name"] == s["n"]]
                if fr:
                    stack = fr[-1]["sels"] + stack
        names = {}
        for k, group in keys.items():
            names.setdefault(group[0]["n"], []).append(k)
        if any(len(v) > 1 for v in names.values()):
            fs.add("same-field-two-aliases")
        for k, group in keys.items():
            if len(group) > 1 and any(g["s"] for g in group):
                fs.add("same-key")
            sub = [x for g in group for x in g["s"]]
            if sub:
                if ref_levels(sub, doc["frags"], vs) == 0:
                    fs.add("sub-all-skipped")
                walk(sub)
    walk(op["sels"])
    return "+".join(sorted(fs)) or "plain"


# ----------------------------------------------------------------------------- generators

def partitions(n):
    """all ways to cut range(n) into contiguous blocks"""
    if n == 0:
        yield []
        return
    for first in range(1, n + 1):
        for rest in partitions(n - first):
            yield [first] + rest


def distributions(sels, counter):
    """every distribution of a selection list over plain / inline / named fragments (recursively).
       yields (new sels, [fragment definitions])"""
    subs = []
    for s in sels:
        if s["k"] == "f" and s["s"]:
            subs.append([(dict(s, s=ns), fr) for ns, fr in distributions(s["s"], counter)])
        else:
            subs.append([(s, [])])
    for combo in itertools.product(*subs):
        items = [c[0] for c in combo]
        frs = [f for c in combo for f in c[1]]
        for part in partitions(len(items)):
            blocks, pos = [], 0
            for ln in part:
                blocks.append(items[pos:pos + ln])
                pos += ln
            for kinds in itertools.product("pis", repeat=len(blocks)):
                out, extra = [], []
                for b, kd in zip(blocks, kinds):
                    if kd == "p":
                        out += b
                    elif kd == "i":
                        out.append(I(b, typed=(len(b) % 2 == 0)))
                    else:
                        counter[0] += 1
                        nm = "F%d" % counter[0]
                        extra.append({"name": nm, "sels": b})
                        out.append(S(nm))
                yield out, frs + extra


def rename_frags(doc):
    """canonical fragment names F1.. in order of definition (keeps exhaustive docs comparable)"""
    m = {f["name"]: "F%d" % (i + 1) for i, f in enumerate(doc["frags"])}

    def go(sels):
        return [dict(s, s=go(s["s"])) if s["k"] in "fi" else dict(s, n=m.get(s["n"], s["n"])) for s in sels]
    return {"ops": [dict(o, sels=go(o["sels"])) for o in doc["ops"]],
            "frags": [{"name": m[f["name"]], "sels": go(f["sels"])} for f in doc["frags"]]}


def gen_base(rng, depth, width):
    out = []
    for _ in range(rng.randint(1, width)):
        if depth > 0 and rng.random() < 0.65:
            n, a = rng.choice(OBJ)
            out.append(F(n, gen_base(rng, depth - 1, width), alias=a))
        else:
            n, a = rng.choice(LEAF)
            out.append(F(n, alias=a))
    return out


def rand_dirs(rng, p):
    d = nod()
    for k in ("skip", "incl"):
        if rng.random() < p:
            d[k] = {"var": rng.choice(VARS)} if rng.random() < 0.6 else {"lit": rng.random() < 0.5}
    return d


def decorate(rng, sels, p):
    return [dict(s, d=rand_dirs(rng, p), **({"s": decorate(rng, s["s"], p)} if s["k"] in "fi" else {})) for s in sels]


def wrap_random(rng, sels, frags, reusable, counter, p, pdir):
    """distribute a selection list at random; wrappers may carry directives when pdir > 0"""
    items = []
    for s in sels:
        if s["k"] in "fi" and s["s"]:
            s = dict(s, s=wrap_random(rng, s["s"], frags, reusable, counter, p, pdir))
        items.append(s)
    out, i = [], 0
    while i < len(items):
        ln = rng.randint(1, len(items) - i)
        r = rng.random()
        if r < p:
            out.append(I(items[i:i + ln], d=rand_dirs(rng, pdir), typed=rng.random() < 0.5))
        elif r < 2 * p:
            counter[0] += 1
            nm = "G%d" % counter[0]
            frags.append({"name": nm, "sels": items[i:i + ln]})
            out.append(S(nm, d=rand_dirs(rng, pdir)))
        else:
            out += items[i:i + ln]
        i += ln
    spreads = [x for x in out if x["k"] == "s"]
    if spreads and rng.random() < 0.3:        # the same fragment spread again in the same scope, own directives
        out.insert(rng.randint(0, len(out)), S(rng.choice(spreads)["n"], d=rand_dirs(rng, max(pdir, 0.3) if pdir else 0)))
    if reusable and rng.random() < 0.25:
        out.insert(rng.randint(0, len(out)), S(rng.choice(reusable), d=rand_dirs(rng, pdir)))
    if rng.random() < p / 2:      # wrap the whole list once more
        out = [I(out, typed=rng.random() < 0.5)]
    return out


def gen_doc(rng, counter):
    """(base document, distributed document with the same directives on the original nodes)"""
    nops = rng.choice([1, 1, 2, 3])
    depth = rng.randint(0, 5)
    pdir = rng.choice([0, 0, 0.15, 0.3])
    # directives on the WRAPPERS (inline fragments, spreads): then the base document is no longer comparable
    wdir = rng.choice([0, 0, 0.2, 0.35])
    base_ops, ops, frags = [], [], []
    for i in range(nops):
        name = "Q%d" % i if (nops > 1 or rng.random() < 0.5) else None
        base = decorate(rng, gen_base(rng, depth if i == 0 else rng.randint(0, 5), 3), pdir)
        reusable = [f["name"] for f in frags]
        before = len(frags)
        newfr = []
        sels = wrap_random(rng, base, newfr, reusable, counter, rng.choice([0.15, 0.3, 0.45]), wdir)
        frags += newfr
        del before
        base_ops.append({"name": name, "sels": base})
        ops.append({"name": name, "sels": sels})
    return ({"ops": base_ops, "frags": []} if wdir == 0 else None), {"ops": ops, "frags": frags}


def prune_frags(doc):
    """keep only fragments reachable from the operations (NoUnusedFragments)"""
    used, todo = set(), [s for o in doc["ops"] for s in o["sels"]]
    byname = {f["name"]: f for f in doc["frags"]}
    while todo:
        s = todo.pop()
        if s["k"] in "fi":
            todo += s["s"]
        elif s["n"] not in used and s["n"] in byname:
            used.add(s["n"])
            todo += byname[s["n"]]["sels"]
    return dict(doc, frags=[f for f in doc["frags"] if f["name"] in used])


# ----------------------------------------------------------------------------- running the real code

class Real:
    def __init__(self):
        from py_gql import build_schema
        from py_gql.lang import parse
        from py_gql.utilities import MaxDepthValidationRule, selected_fields
        from py_gql.validation import validate_ast
        from py_gql.lang import ast as A
        self.schema = build_schema(SDL)
        self.parse, self.Rule, self.validate_ast, self.A = parse, MaxDepthValidationRule, validate_ast, A
        self.selected_fields = selected_fields
        self._valid = {}
        import functools
        from py_gql.validation import SPECIFIED_RULES, default_validator
        from py_gql.validation.rules import NoUnusedVariablesChecker
        # NoUnusedVariables is left out: defect V4 of the unchanged tree (one-pass `_flatten_fragments`) makes it report
        # variables used through nested fragments as unused; the generator declares exactly the variables an operation uses.
        self.validator = functools.partial(
            default_validator, validators=tuple(r for r in SPECIFIED_RULES if r is not NoUnusedVariablesChecker))

    def valid(self, document, vs, text=None):
        if text is not None and text in self._valid:
            return self._valid[text]
        r = self._valid1(document, vs)
        if text is not None:
            if len(self._valid) > 2000:
                self._valid.clear()
            self._valid[text] = r
        return r

    def _valid1(self, document, vs):
        try:
            return bool(self.validate_ast(self.schema, document, validators=[self.validator], variables=vs))
        except Exception:  # the default validators themselves crashing is C05's business
            return False

    def flags(self, document, vs, limit, filt, via_validate=False):
        """list of flagged operation indices | 'exc:<Class>'"""
        ops = [d for d in document.definitions if isinstance(d, self.A.OperationDefinition)]
        try:
            rule = self.Rule(limit, operation_name=filt)
            if via_validate:
                errs = self.validate_ast(self.schema, document, validators=[rule], variables=vs).errors
            else:
                errs = rule(self.schema, document, vs)
            out = []
            for e in errs:
                idx = [i for i, o in enumerate(ops) if any(n is o for n in e.nodes)]
                out.append(idx[0] if len(idx) == 1 and len(e.nodes) == 1 else -1)
            return out
        except Exception as e:  # noqa
            return "exc:" + type(e).__name__

    def flags_with(self, rule, document, vs, via_validate=False):
        """like `flags`, with a GIVEN rule instance and a GIVEN parsed document (histories)"""
        ops = [d for d in document.definitions if isinstance(d, self.A.OperationDefinition)]
        try:
            if via_validate:
                errs = self.validate_ast(self.schema, document, validators=[rule], variables=vs).errors
            else:
                errs = rule(self.schema, document, vs)
            out = []
            for e in errs:
                idx = [i for i, o in enumerate(ops) if any(n is o for n in e.nodes)]
                out.append(idx[0] if len(idx) == 1 and len(e.nodes) == 1 else -1)
            return out
        except Exception as e:  # noqa
            return "exc:" + type(e).__name__

    def paths(self, document, vs, maxdepth):
        out = []
        for d in document.definitions:
            if isinstance(d, self.A.OperationDefinition):
                row = []
                for s in d.selection_set.selections:
                    if isinstance(s, self.A.Field):
                        try:
                            row.append([p.split("/") for p in self.selected_fields(
                                s, fragments=document.fragments, variables=vs, maxdepth=maxdepth)])
                        except Exception as e:  # noqa
                            row.append("exc:" + type(e).__name__)
                out.append(row)
        return out


ERRMAP = {"err:value": "exc:ValueError", "err:coercion": "exc:CoercionError", "err:recursion": "exc:RecursionError",
          "err:index": "exc:IndexError"}


def filters_of(doc):
    names = [o["name"] for o in doc["ops"] if o["name"]]
    return [None] + names + ["Nope", ""]


def grid_for(case):
    """cyclic documents: a small grid (every call costs a full budget / recursion-limit traversal)"""
    if case.cyclic:
        names = [o["name"] for o in case.doc["ops"] if o["name"]]
        return [(None, 0), (None, 3), (None, 8)] + ([(names[-1], 2)] if names else []) + [("Nope", 0)]
    return grid_of(case.doc)


def grid_of(doc):
    """(filter, limit) pairs checked for a document"""
    out = []
    for f in filters_of(doc):
        for l in (LIMITS if f not in ("Nope", "") else [0, 2, 8]):
            out.append((f, l))
    return out


VIA_LIMITS = (0, 3)


def selected(filt, op):
    return (not filt) or op["name"] == filt


def expected_flags(doc, vs, limit, filt):
    return [i for i, o in enumerate(doc["ops"]) if selected(filt, o) and ref_depth(doc, i, vs) > limit]


def measured(real, document, vs, i, grid=None):
    """depth measured by the real rule for operation i = least limit that does not flag it (None if it raises)"""
    for limit in range(0, 64):
        r = grid.get((None, limit)) if grid else None
        if r is None:
            r = real.flags(document, vs, limit, None)
        if isinstance(r, str):
            return None
        if i not in r:
            return limit
    return 64


def all_assignments(names):
    names = sorted(names)
    for bits in itertools.product([False, True], repeat=len(names)):
        yield dict(zip(names, bits))


# ----------------------------------------------------------------------------- the check of one document

class Case:
    """vs: the (coerced) variable values the specification is evaluated with; real_vs: what is passed to the rule"""

    def __init__(self, doc, vs, base=None, defaults=False, real_vs=None):
        self.doc, self.vs, self.base, self.defaults = doc, vs, base, defaults
        self.real_vs = vs if real_vs is None else real_vs
        self.validate = True
        self.raw = False           # real_vs are arbitrary JSON values (Lean: "raw" / ruleR)
        self.unavailable = None
        self.cyclic = False        # the document has a fragment cycle (invalid): never-raises clause + defined outcome

    def detail(self, **kw):
        d = {"text": p_doc(self.doc, self.defaults), "variables": self.real_vs, "spec_variables": self.vs}
        if self.base is not None:
            d["base_text"] = p_doc(self.base, self.defaults)
        d.update(kw)
        return d


def oracle_failures(real, case, limits=LIMITS, want_valid=True):
    want_valid = want_valid and case.validate
    """Direct oracle on the real code. Returns list of (kind, op index, info) — empty = property holds."""
    doc, vs, rvs = case.doc, case.vs, case.real_vs
    text = p_doc(doc, case.defaults)
    document = real.parse(text)
    if want_valid and not real.valid(document, rvs, text):
        return [("generator-invalid", 0, {})]
    fails = []
    case.grid = {}
    case.document = document
    for filt, limit in grid_for(case):
        if limits is not LIMITS and limit not in limits:
            continue
        if True:
            exp = expected_flags(doc, vs, limit, filt)
            for via in ((False, True) if limit in VIA_LIMITS else (False,)):
                got = real.flags(document, rvs, limit, filt, via_validate=via)
                if not via:
                    case.grid[(filt, limit)] = got
                if got == exp:
                    continue
                if isinstance(got, str):
                    # which operation makes it raise? the first selected one that raises alone
                    fails.append(("raises:" + got[4:], blame_raise(real, doc, rvs, case.defaults), {"limit": limit, "filter": filt, "via_validate_ast": via}))
                else:
                    miss = [i for i in exp if i not in got]
                    over = [i for i in got if i not in exp]
                    if miss:
                        kind = "not-flagged" if selected(filt, doc["ops"][miss[0]]) else "name-filter"
                        fails.append((kind, miss[0], {"limit": limit, "filter": filt, "via_validate_ast": via, "flagged": got, "expected": exp}))
                    elif over:
                        i = over[0] if over[0] >= 0 else 0
                        kind = "over-flagged" if selected(filt, doc["ops"][i]) else "name-filter"
                        fails.append((kind, i, {"limit": limit, "filter": filt, "via_validate_ast": via, "flagged": got, "expected": exp}))
                    else:
                        fails.append(("error-order", 0, {"limit": limit, "filter": filt, "flagged": got, "expected": exp}))
                return fails[:1]
    # (also with unavailable directive variables: the look-ahead helper must keep the selection, not raise — /repo 4c46ee1)
    if not fails and not case.cyclic:
        pf = paths_failure(real, case, document)
        if pf:
            return [pf]
    if case.base is not None and not fails:
        bdoc = real.parse(p_doc(case.base, case.defaults))
        for i in range(len(doc["ops"])):
            m1 = measured(real, document, rvs, i, case.grid)
            if m1 is None:
                continue
            # only the limits below the measured depth of the wrapped document can show a lowering
            r0 = [real.flags(bdoc, rvs, l, None) for l in range(m1, m1 + 1)]
            if any((not isinstance(r, str)) and i in r for r in r0):
                m0 = measured(real, bdoc, rvs, i)
                fails.append(("wrap-lowers", i, {"measured_base": m0, "measured_wrapped": m1}))
                break
    return fails[:1]


def blame_raise(real, doc, vs, defaults):
    for i, o in enumerate(doc["ops"]):
        single = {"ops": [o], "frags": doc["frags"]}
        try:
            r = real.flags(real.parse(p_doc(prune_frags(single), defaults)), vs, 0, None)
        except Exception:  # noqa
            continue
        if isinstance(r, str):
            return i
    return 0


def shrink(real, case, kind):
    """greedy structural shrinking keeping the failure kind and validity"""
    def fails_same(c):
        try:
            f = oracle_failures(real, c)
        except Exception:  # noqa
            return False
        return bool(f) and f[0][0] == kind

    def candidates(doc):
        # drop an operation
        if len(doc["ops"]) > 1:
            for i in range(len(doc["ops"])):
                yield dict(doc, ops=doc["ops"][:i] + doc["ops"][i + 1:])
        # edit one selection list somewhere
        holders = [("ops", i) for i in range(len(doc["ops"]))] + [("frags", i) for i in range(len(doc["frags"]))]
        for hk, hi in holders:
            for new in edits(doc[hk][hi]["sels"]):
                if new:
                    nd = dict(doc)
                    nd[hk] = list(doc[hk])
                    nd[hk][hi] = dict(doc[hk][hi], sels=new)
                    yield nd

    def edits(sels):
        for i, s in enumerate(sels):
            yield sels[:i] + sels[i + 1:]                                   # delete
            if s["k"] == "i":
                yield sels[:i] + s["s"] + sels[i + 1:]                      # unwrap
            if s["k"] == "f" and s["s"]:
                yield sels[:i] + s["s"] + sels[i + 1:]                      # hoist children
            if s["d"]["skip"] or s["d"]["incl"]:
                yield sels[:i] + [dict(s, d=nod())] + sels[i + 1:]          # drop directives
            if s["k"] in "fi" and s["s"]:
                for sub in edits(s["s"]):
                    if sub or s["k"] == "f" and s["n"] in ("c", "d"):
                        if sub:
                            yield sels[:i] + [dict(s, s=sub)] + sels[i + 1:]

    cur = case
    budget = 400
    improved = True
    while improved and budget > 0:
        improved = False
        for cand in candidates(cur.doc):
            budget -= 1
            if budget <= 0:
                break
            cand = prune_frags(cand)
            c = Case(cand, cur.vs, None if kind != "wrap-lowers" else cur.base, cur.defaults, cur.real_vs)
            if kind == "wrap-lowers":
                continue
            if fails_same(c):
                cur, improved = c, True
                break
    return cur


def shrink_raw(real, case, kind, i):
    """raw-variable cases: keep only the blamed operation (plus one flat witness operation) if the failure persists,
       then drop request variables one by one"""
    def build(doc, raw):
        views, ok, unavailable = effective_views(doc, False, raw)
        c = Case(doc, views, real_vs=raw)
        c.raw, c.unavailable, c.validate = True, unavailable, False
        return c

    def fails_same(c):
        try:
            f = oracle_failures(real, c)
        except Exception:  # noqa
            return False
        return bool(f) and f[0][0] == kind

    cur = case
    if len(case.doc["ops"]) > 1 and 0 <= i < len(case.doc["ops"]):
        cand = build(prune_frags({"ops": [case.doc["ops"][i]], "frags": case.doc["frags"]}), case.real_vs)
        if fails_same(cand):
            cur = cand
    for k in sorted(cur.real_vs):
        raw = {a: b for a, b in cur.real_vs.items() if a != k}
        cand = build(cur.doc, raw)
        if fails_same(cand):
            cur = cand
    return cur


def report(ctx, real, case, fails):
    kind, i, info = fails[0]
    if kind == "generator-invalid":
        ctx.stat("generated-invalid")
        if ctx.stats["generated-invalid"] <= 2:
            ctx.notes.append("generator produced an invalid document: " + p_doc(case.doc)[:300])
        return
    small = case if case.cyclic else (shrink_raw(real, case, kind, i) if case.raw else shrink(real, case, kind))
    f2 = oracle_failures(real, small) or fails
    case = small if (small.raw or small.cyclic) else case
    kind2, i2, info2 = f2[0]
    i2 = min(i2, len(small.doc["ops"]) - 1)
    feat = "fragment-cycle" if case.cyclic else features(small.doc, i2, small.vs)
    if kind2.startswith("raises:CoercionError") and small.defaults:
        feat = "directive-variable-omitted"
    if case.cyclic:
        feat = "fragment-cycle"
    if case.raw and not case.cyclic:
        feat = "uncoercible-variables"
        if kind2.startswith("raises:CoercionError") and case.unavailable and any(case.unavailable):
            feat = "directive-variable-unavailable"
    sig = "%s:%s" % (kind2, feat)
    what = {
        "raises": "the depth rule raises on a valid document",
        "not-flagged": "an operation deeper than the limit is not reported",
        "over-flagged": "an operation within the limit is reported",
        "name-filter": "the operation_name filter does not restrict the check to that operation",
        "wrap-lowers": "wrapping selections in fragments lowers the measured depth",
        "error-order": "errors not reported once per operation in document order",
        "paths-missing": "selected_fields does not list a selected field path",
        "paths-extra": "selected_fields lists a path that is not selected (or is beyond maxdepth / outside the pattern)",
        "paths-raises": "selected_fields raises on a valid document",
    }[kind2.split(":")[0]]
    ctx.fail(sig, "%s (%s)" % (what, feat), small.detail(operation=i2, spec_depth=ref_depth(small.doc, i2, small.vs), **info2))


def correspond(ctx, real, cases, fixed, sf_fixed=True, vars_fixed=True):
    """model vs real code (+ Lean spec vs Python reference spec, acyclic vs validator)"""
    if not ctx.model_ok or not cases:
        return
    reqs = []
    for c in cases:
        reqs.append({"op": "check", "doc": wire_doc(c.doc, c.defaults), "raw": c.real_vs if c.raw else {},
                     "vars": {k: v for k, v in c.real_vs.items() if isinstance(v, bool)},
                     "grid": [[f, l] for f, l in grid_for(c)], "maxdepths": MAXDEPTHS})
    answers = ctx.driver.ask(reqs)
    for c, a in zip(cases, answers):
        document = getattr(c, "document", None) or real.parse(p_doc(c.doc, c.defaults))
        conv = conv_doc(document)
        if conv != wire_doc(c.doc, c.defaults):
            ctx.fail("corr:ast-conversion", "converted parsed AST differs from the generated tree", c.detail(), kind="correspondence")
            continue
        if a.get("acyclic") is not True and not c.cyclic:
            ctx.fail("corr:acyclic", "Lean `acyclic` rejects a document the validator accepts", c.detail(), kind="correspondence")
        spec = [ref_depth(c.doc, i, c.vs) for i in range(len(c.doc["ops"]))]
        if a.get("spec") != spec and c.real_vs == c.vs and not c.raw and not c.cyclic:
            ctx.fail("corr:spec-depth", "Lean spec depth differs from the Python reference depth",
                     c.detail(lean=a.get("spec"), reference=spec), kind="correspondence")
        key = ("rulev" if vars_fixed else "rule") if fixed else "orig"
        if c.raw:
            if not (fixed and vars_fixed):
                continue
            key = "rulecur"
        have = getattr(c, "grid", {})
        for (f, l), m in zip(grid_for(c), a[key]):
            got = have[(f, l)] if (f, l) in have else real.flags(document, c.real_vs, l, f)
            m = ERRMAP.get(m, m) if isinstance(m, str) else m
            ctx.count()
            if got != m:
                ctx.fail("corr:rule:%s" % ("raise" if isinstance(got, str) or isinstance(m, str) else "flags"),
                         "model of the %s rule and the implementation differ" % ("fixed" if fixed else "unchanged"),
                         c.detail(limit=l, filter=f, impl=got, model=m), kind="correspondence")
                break
        for md_i, md in enumerate(MAXDEPTHS if not (c.raw or c.cyclic) else []):
            impl = real.paths(document, c.real_vs, md if md else None)
            model = [[(ERRMAP.get(cell[md_i], cell[md_i]) if isinstance(cell[md_i], str) else cell[md_i]) for cell in row] for row in a["paths" if sf_fixed else "pathsOrig"]]
            ctx.count()
            if impl != model:
                ctx.fail("corr:selected_fields", "model and selected_fields differ", c.detail(maxdepth=md, impl=impl, model=model), kind="correspondence")
                break
        if not (c.raw or c.cyclic) and md == MAXDEPTHS[-1]:
            impl0 = real.paths(document, c.real_vs, 0)
            if impl0 != real.paths(document, c.real_vs, None):
                ctx.fail("corr:selected_fields:maxdepth0", "maxdepth=0 and None differ", c.detail(), kind="correspondence")


def is_sf_fixed_tree():
    from common import REPO
    return "_selected_paths" in (REPO / "src/py_gql/utilities/collect_fields.py").read_text()


def is_vars_fixed_tree():
    from common import REPO
    return "coerce_variable_values" in (REPO / "src/py_gql/utilities/max_depth.py").read_text()


def lenient_hook(path, funcname):
    """Does `funcname` (in the source file `path`) call collect_fields_untyped(..., skip_selection=<f>) where <f> is
       `try: return _skip_selection(node, variables)  except CoercionError: return False` (a condition that cannot be evaluated keeps
       the selection)? False if no `skip_selection` argument is passed (strict evaluation); raises if the hook has another shape
       (the model does not cover it: broken obligation)."""
    import ast as pyast
    tree = pyast.parse(path.read_text())
    defs = {n.name: n for n in pyast.walk(tree) if isinstance(n, pyast.FunctionDef)}
    if funcname not in defs:
        raise ValueError("%s no longer defines %s" % (path.name, funcname))
    hook = None
    for node in pyast.walk(defs[funcname]):
        if isinstance(node, pyast.Call) and getattr(node.func, "id", None) == "collect_fields_untyped":
            for kw in node.keywords:
                if kw.arg == "skip_selection":
                    if not isinstance(kw.value, pyast.Name):
                        raise ValueError("%s: skip_selection is not a plain function name" % funcname)
                    hook = kw.value.id
    if hook is None:
        return False
    if hook not in defs:
        raise ValueError("%s: hook %s is not defined in %s" % (funcname, hook, path.name))
    body = [n for n in defs[hook].body if not (isinstance(n, pyast.Expr) and isinstance(getattr(n, "value", None), pyast.Constant))
            and not isinstance(n, (pyast.Import, pyast.ImportFrom))]
    ok = (len(body) == 1 and isinstance(body[0], pyast.Try) and len(body[0].body) == 1 and isinstance(body[0].body[0], pyast.Return)
          and isinstance(body[0].body[0].value, pyast.Call) and getattr(body[0].body[0].value.func, "id", None) == "_skip_selection"
          and len(body[0].handlers) == 1 and getattr(body[0].handlers[0].type, "id", None) == "CoercionError"
          and len(body[0].handlers[0].body) == 1 and isinstance(body[0].handlers[0].body[0], pyast.Return)
          and isinstance(body[0].handlers[0].body[0].value, pyast.Constant) and body[0].handlers[0].body[0].value.value is False
          and not body[0].orelse and not body[0].finalbody)
    if not ok:
        if _separate_hook(body):
            return "separate"
        raise ValueError("%s: hook %s is not `try: return _skip_selection(..) except CoercionError: return False`" % (funcname, hook))
    return True


def _separate_hook(body):
    """the hook of proposed fix C19-H4: the two directives evaluated on their own,
         try: skip = directive_arguments(SkipDirective, ..); if skip is not None and skip['if']: return True   except CoercionError: pass
         try: include = directive_arguments(IncludeDirective, ..); if include is not None and not include['if']: return True   except ..: pass
         return False"""
    import ast as pyast
    if len(body) != 3 or not isinstance(body[0], pyast.Try) or not isinstance(body[1], pyast.Try) or not isinstance(body[2], pyast.Return):
        return False
    if not (isinstance(body[2].value, pyast.Constant) and body[2].value.value is False):
        return False
    want = [("skip = directive_arguments(SkipDirective, node, variables=variables)", "if skip is not None and skip['if']:\n    return True"),
            ("include = directive_arguments(IncludeDirective, node, variables=variables)", "if include is not None and (not include['if']):\n    return True")]
    for t, (w0, w1) in zip(body[:2], want):
        if len(t.body) != 2 or t.orelse or t.finalbody or len(t.handlers) != 1:
            return False
        if pyast.unparse(t.body[0]) != w0 or pyast.unparse(t.body[1]).replace("(not include['if'])", "(not include['if'])") != w1:
            if not (pyast.unparse(t.body[0]) == w0 and pyast.unparse(t.body[1]) == w1.replace("(not include['if'])", "not include['if']")):
                return False
        h = t.handlers[0]
        if getattr(h.type, "id", None) != "CoercionError" or len(h.body) != 1 or not isinstance(h.body[0], pyast.Pass):
            return False
    return True


def extract(ctx):
    """which variant of the code the tree has (the model follows it): Generated/DepthVariant.lean, re-extracted from the source:
       the `skip_selection` hooks passed by `_nesting_levels` (max_depth.py) and `_selected_paths` (collect_fields.py), the budget"""
    from common import REPO
    src = (REPO / "src/py_gql/utilities/max_depth.py").read_text()
    if "class MaxDepthValidationRule" not in src:
        raise ValueError("max_depth.py no longer defines MaxDepthValidationRule")
    tolerant = is_tolerant_tree()
    budgeted = is_budgeted_tree()
    lenient = is_lenient_sf_tree()
    shared = is_shared_seen_tree()
    loop = nesting_loop_shape()
    merged, frontier = loop == "merged", loop == "frontier"
    separate = is_separate_directives_tree()
    return {"PyGqlModel/Generated/DepthVariant.lean": (
        "/- GENERATED by harness/corr/C19.py: extract() from src/py_gql/utilities/{max_depth,collect_fields}.py — do not edit. -/\n"
        "namespace PyGql.Generated.DepthVariant\n\n"
        "/-- `_nesting_levels` calls `collect_fields_untyped(..., skip_selection=<keep when CoercionError>)` (C19-Q1vars2.patch) -/\n"
        "def tolerantSkip : Bool := %s\n\n"
        "/-- the traversal carries a nesting budget and `__call__` reports an exhausted budget (C19-Q2.patch) -/\n"
        "def budgeted : Bool := %s\n\n"
        "/-- `_selected_paths` calls `collect_fields_untyped(..., skip_selection=<keep when CoercionError>)` (/repo 4c46ee1) -/\n"
        "def lenientSelectedFields : Bool := %s\n\n"
        "/-- `collect_fields_untyped` keeps ONE visited-fragments set per collection (`if _seen_fragments is None`, C19-H2.patch) -/\n"
        "def sharedSeen : Bool := %s\n\n"
        "/-- `_nesting_levels` keeps ONE list of selections per level (C19-H3.patch) instead of a frontier of merged sub-selection lists -/\n"
        "def levelMerged : Bool := %s\n\n"
        "/-- `_nesting_levels` iterates level by level over a FRONTIER of selection lists (C19-Q3.patch: model `nestingLevelsF`); when both\n"
        "    are false the function is one of the recursive versions (model `nestingLevelsG`) -/\n"
        "def levelFrontier : Bool := %s\n\n"
        "/-- the hook of `_nesting_levels` evaluates @skip and @include on their own: one KNOWN excluding directive skips the selection whatever\n"
        "    the other, unevaluable, one is (C19-H4.patch: model `skipSelectionT3`) -/\n"
        "def separateDirectives : Bool := %s\n\n"
        "end PyGql.Generated.DepthVariant\n" % tuple("true" if x else "false" for x in (tolerant, budgeted, lenient, shared, merged, frontier, separate)))}


def nesting_loop_shape():
    """"recursive" | "frontier" | "merged": shape of the loop of `_nesting_levels`: a `for ... in frontier` over a list of selection lists (today), or ONE list per level
       handed to `collect_fields_untyped` directly in the `while` body (C19-H3.patch: model `nestingLevelsM`)"""
    import ast as pyast
    from common import REPO
    tree = pyast.parse((REPO / "src/py_gql/utilities/max_depth.py").read_text())
    fn = [n for n in pyast.walk(tree) if isinstance(n, pyast.FunctionDef) and n.name == "_nesting_levels"]
    if not fn:
        return "recursive"
    loops = [n for n in pyast.walk(fn[0]) if isinstance(n, pyast.While)]
    if not loops:
        return "recursive"                 # the recursive versions (before C19-Q3.patch)
    if len(loops) != 1:
        raise ValueError("_nesting_levels has an unknown shape (several while loops)")
    w = loops[0]
    cond = pyast.unparse(w.test)

    def collect_calls(node):
        return [c for c in pyast.walk(node) if isinstance(c, pyast.Call) and pyast.unparse(c.func) == "collect_fields_untyped"]
    direct = [st for st in w.body if not isinstance(st, (pyast.For, pyast.While)) and collect_calls(st)]
    nested = [st for st in w.body if isinstance(st, pyast.For) and collect_calls(st)]
    if nested and not direct:
        if cond != "frontier" or pyast.unparse(nested[0].iter) != "frontier":
            raise ValueError("_nesting_levels iterates over an unknown frontier (%s)" % cond)
        return "frontier"
    if direct and not nested:
        call = collect_calls(direct[0])[0]
        if not call.args or pyast.unparse(call.args[0]) != cond:
            raise ValueError("_nesting_levels collects something else than the list its loop tests (%s)" % cond)
        return "merged"
    raise ValueError("_nesting_levels has an unknown shape (where collect_fields_untyped is called)")


def is_shared_seen_tree():
    """how `collect_fields_untyped` initialises `_seen_fragments`: `if _seen_fragments is None` (shared) or `... or set()` (an empty
       set is replaced by a private one); anything else is outside the model"""
    import ast as pyast
    from common import REPO
    tree = pyast.parse((REPO / "src/py_gql/utilities/collect_fields.py").read_text())
    fn = [n for n in pyast.walk(tree) if isinstance(n, pyast.FunctionDef) and n.name == "collect_fields_untyped"]
    if not fn:
        raise ValueError("collect_fields.py no longer defines collect_fields_untyped")
    src = pyast.unparse(fn[0])
    if "_seen_fragments = _seen_fragments or set()" in src:
        return False
    if "if _seen_fragments is None:" in src and "_seen_fragments = set()" in src:
        return True
    raise ValueError("collect_fields_untyped initialises _seen_fragments in an unknown way")


def is_lenient_sf_tree():
    from common import REPO
    p = REPO / "src/py_gql/utilities/collect_fields.py"
    if "def _selected_paths" not in p.read_text():
        return False
    r = lenient_hook(p, "_selected_paths")
    if r == "separate":
        raise ValueError("_selected_paths: a hook evaluating the two directives separately is outside the model of selected_fields")
    return bool(r)


def is_budgeted_tree():
    from common import REPO
    src = (REPO / "src/py_gql/utilities/max_depth.py").read_text()
    return "_budget=budget" in src and ("except (ExpansionBudgetExhausted" in src or "except ExpansionBudgetExhausted" in src)


def is_tolerant_tree():
    from common import REPO
    p = REPO / "src/py_gql/utilities/max_depth.py"
    if "def _nesting_levels" not in p.read_text():
        return False
    return bool(lenient_hook(p, "_nesting_levels"))


def is_separate_directives_tree():
    """the hook `_nesting_levels` passes evaluates @skip and @include on their own (proposed fix C19-H4): a selection is excluded as soon as
       ONE directive is known to exclude it, an unevaluable one decides nothing (model `skipSelectionT3`)"""
    from common import REPO
    p = REPO / "src/py_gql/utilities/max_depth.py"
    if "def _nesting_levels" not in p.read_text():
        return False
    return lenient_hook(p, "_nesting_levels") == "separate"


def is_fixed_tree():
    from common import REPO
    return "_nesting_levels" in (REPO / "src/py_gql/utilities/max_depth.py").read_text()


# ----------------------------------------------------------------------------- run

DOCSTRING = """{ hero { name friends { ... friendsData } } }
fragment friendsData on Character { friends { name friends { name } } }"""


def wide_docs():
    """WIDE selection sets (seeded C19-12): one selection set holding 6..16 SIBLING fragment expansions — the way a union /
       interface with many members is selected — at depth 0..2. The nesting budget of `collect_fields_untyped` bounds the NESTING
       of expansions, never their number: these documents have depth 0..2 whatever the width. Deterministic (no rng)."""
    for depth in (0, 1, 2):
        for shape, widths in (("inline", (6, 7, 8, 10, 12)), ("inline-typed", (7, 12)), ("spreads+inline", (8, 12, 16))):
            for w in widths:
                if shape == "spreads+inline":
                    wide = [S("W1"), S("W2")] + [I([F("c", alias="z")]) for _ in range(w)]
                    frags = [{"name": "W1", "sels": [F("c")]}, {"name": "W2", "sels": [F("d")]}]
                else:
                    wide = [I([F("c")], typed=(shape == "inline-typed")) for _ in range(w)]
                    frags = []
                sels = wide
                for _ in range(depth):
                    sels = [F("a", sels)]
                yield shape, depth, w, {"ops": [{"name": "Q", "sels": sels}], "frags": frags}


def corpus_cases():
    from common import CORPUS
    d = CORPUS / "C19"
    out = []
    if d.exists():
        for p in sorted(d.glob("*.json")):
            j = json.loads(p.read_text())
            out.append((p.name, j))
    return out


def run(ctx):
    real = Real()
    try:
        SEPARATE[0] = is_separate_directives_tree()
    except Exception as e:  # noqa: an unknown hook shape is already a broken obligation (extract); the direct oracle still runs
        SEPARATE[0] = False
        ctx.notes.append("skip hook of _nesting_levels has an unknown shape (%s): reference uses the joint reading" % e)
    ctx.extra["separate_directives"] = SEPARATE[0]
    budget0 = ctx.time_left()
    fixed = is_fixed_tree()
    sf_fixed = is_sf_fixed_tree()
    LENIENT_SF[0] = is_lenient_sf_tree()
    ctx.extra["selected_fields_directives"] = "lenient (unevaluable condition keeps the selection)" if LENIENT_SF[0] else "strict (CoercionError)"
    vars_fixed = is_vars_fixed_tree()
    ctx.extra["variables_under_test"] = "coerced per operation (C19-Q1vars.patch applied)" if vars_fixed else "raw request variables"
    ctx.extra["selected_fields_under_test"] = "fixed (C19-Q1sf.patch applied)" if sf_fixed else "unchanged (descends into fields[0] only)"
    ctx.extra["tree_under_test"] = "fixed (proposed_fixes/C19-Q1.patch applied)" if fixed else "unchanged (Q1 present)"
    counter = [0]
    pending = []

    def check(case, nontrivial_key=None):
        ctx.count()
        fails = oracle_failures(real, case)
        if fails:
            report(ctx, real, case, fails)
            if fails[0][0] == "generator-invalid":
                return
        pending.append(case)
        depths = [ref_depth(case.doc, i, case.vs) for i in range(len(case.doc["ops"]))]
        for d in depths:
            ctx.stat("spec-depth=%s" % ("unbounded" if d == INF else min(d, 9)))
        top = any(s["k"] != "f" for o in case.doc["ops"] for s in o["sels"])
        if max(depths) >= 1 or top:
            ctx.nontrivial(nontrivial_key or (p_doc(case.doc), sorted(case.vs.items())))
        ctx.stat("ops=%d" % len(case.doc["ops"]))
        ctx.stat("fragments=%d" % min(len(case.doc["frags"]), 6))
        if len(pending) >= 300:
            flush()

    def flush():
        correspond(ctx, real, pending, fixed, sf_fixed, vars_fixed)
        del pending[:]

    # --- corpus (hand-written edge cases; texts over the same schema) -------------------
    for name, j in corpus_cases():
        document = real.parse(j["text"])
        doc = conv_doc(document)
        check(Case(doc_with_types(doc), j.get("variables", {}), defaults=j.get("defaults", False)), ("corpus", name))
        ctx.stat("corpus")
    flush()

    # --- calibration: the docstring example has depth 4 ----------------------------------
    doc = conv_doc(real.parse(DOCSTRING))
    if ref_depth(doc, 0, {}) != 4:
        ctx.fail("corr:calibration", "reference depth of the docstring example is not 4", {"text": DOCSTRING}, kind="correspondence")
    if ctx.model_ok:
        a = ctx.driver.ask([{"op": "check", "doc": doc, "vars": {}, "grid": [[None, 3], [None, 4]], "maxdepths": []}])[0]
        if a["spec"] != [4]:
            ctx.fail("corr:calibration", "Lean spec depth of the docstring example is not 4", {"text": DOCSTRING, "lean": a["spec"]}, kind="correspondence")

    # --- exhaustive distributions of two small operations -------------------------------
    bases = [
        [F("a", [F("b", [F("c")]), F("c")]), F("d")],
        [F("a", [F("a", [F("c")], alias="x"), F("a", [F("b", [F("d")])], alias="x")])],
    ]
    if ctx.tier == "thorough":
        bases.append([F("c"), F("a", [F("b", [F("a", [F("c")]), F("d")])]), F("b", [F("c")])])
    for bi, base in enumerate(bases):
        basedoc = {"ops": [{"name": None, "sels": base}], "frags": []}
        k = 0
        for sels, frags in distributions(base, counter):
            if ctx.out_of_time() or ctx.time_left() < 0.5 * budget0:
                ctx.notes.append("exhaustive enumeration of base %d stopped at %d (machine slow: half of the budget is kept for the sampled streams)" % (bi, k))
                break
            doc = rename_frags({"ops": [{"name": None, "sels": sels}], "frags": frags})
            case = Case(doc, {}, base=basedoc)
            case.validate = (k % 8 == 0)        # same shape family: full validation of every 8th
            check(case, ("exh", bi, k))
            k += 1
        ctx.extra["exhaustive_distributions_base%d" % bi] = k
        ctx.stat("exhaustive", k)
    flush()

    # --- histories: hand-written -------------------------------------------------------------
    for text, steps in HISTORY_CORPUS:
        hdoc = conv_doc(real.parse(text))
        kept = []
        got = run_history(real, text, steps, keep=kept)
        register_later(ctx, real, text, steps, got, kept, [expected_flags(hdoc, st[2], st[0], st[1]) for st in steps])
        ctx.count(len(steps))
        ctx.stat("history-corpus")
        for k, (st, g) in enumerate(zip(steps, got)):
            want = expected_flags(hdoc, st[2], st[0], st[1])
            if g != want and fresh_results(real, text, [st])[0] == want:
                ctx.fail("history:%s:corpus" % ("stale-flag" if isinstance(g, list) else "raises"),
                         "the result of MaxDepthValidationRule depends on earlier calls of the same instance on the same Document",
                         {"text": text, "history": steps[:k + 1], "got_last": g, "expected_last": want})
                break

    # --- requests whose variables do not coerce: hand-made ----------------------------------------
    deep = [F("a", [F("a", [F("a", [F("c")])])])]
    fixed_doc = {"ops": [{"name": "A", "sels": deep + [dict(F("d", alias="w0"), arg="n0")],
                          "xv": [{"n": "n0", "ty": "i", "nn": True, "d": None}]},
                         {"name": "B", "sels": [F("c")]}], "frags": []}
    guarded = {"ops": [{"name": "A", "sels": [F("a", [F("a", [F("c")])], d={"skip": {"var": "v0"}, "incl": None}),
                                              dict(F("d", alias="w0"), arg="n0")],
                        "xv": [{"n": "n0", "ty": "i", "nn": True, "d": None}]},
                       {"name": "B", "sels": [F("c")]}], "frags": []}
    for fdoc, raws in ((fixed_doc, [{}, {"n0": None}, {"n0": "x"}, {"n0": [1]}, {"n0": 2 ** 31}, {"n0": 3}]),
                       (guarded, [{"v0": False}, {"v0": True}, {"v0": [], "n0": 1}, {"v0": [1], "n0": 1}, {"v0": "yes", "n0": "x"}])):
        for raw in raws:
            views, ok, unavailable = effective_views(fdoc, False, raw)
            case = Case(fdoc, views, real_vs=raw)
            case.raw, case.unavailable = True, unavailable
            ctx.stat("uncoercible-hand-made")
            check(case, ("unco-fixed", p_doc(fdoc), json.dumps(raw, sort_keys=True)))
    flush()

    # --- cyclic documents: the three shapes of hunt finding C19/1 + a two-operation one ----------
    for cdoc in HUNT_CYCLIC:
        case = make_cyclic_case(cdoc, {})
        ctx.stat("cyclic-hand-made")
        check(case, ("cyc-fixed", p_doc(cdoc)))
        cyclic_pipeline(ctx, real, cdoc, {}, case.vs)
    flush()

    # --- seeded C19-12: WIDE selection sets (many sibling expansions, small depth) --------------------
    wide_failed = set()
    for shape, depth, w, wdoc in wide_docs():
        case = Case(doc_with_types(wdoc), {})
        ctx.count()
        ctx.stat("wide-siblings")
        ctx.nontrivial(("wide", shape, depth, w))
        fails = oracle_failures(real, case)
        if fails and shape not in wide_failed:
            wide_failed.add(shape)             # the narrowest failing width of each shape names the class
            kind, i, info = fails[0]
            ctx.fail("%s:wide-siblings:%s" % (kind.split(":")[0], shape),
                     "the verdict of the depth rule depends on the NUMBER of sibling fragment expansions in one selection set "
                     "(depth %d, %d siblings)" % (depth, w),
                     case.detail(operation=i, spec_depth=ref_depth(case.doc, i, case.vs), **info))
        pending.append(case)
    flush()

    # --- hunt finding C19/2: every fragment spread twice (exponentially many paths, one depth) ------
    n_exp = 13
    exp_frags = [{"name": "E%d" % k, "sels": [F("a", [S("E%d" % (k + 1))]), F("b", [S("E%d" % (k + 1))])]} for k in range(1, n_exp)]
    exp_frags.append({"name": "E%d" % n_exp, "sels": [F("c")]})
    case = Case({"ops": [{"name": None, "sels": [S("E1")]}], "frags": exp_frags}, {})
    ctx.stat("fragments-spread-twice")
    check(case, ("exp", n_exp))
    flush()

    # --- hunt3: cost oracle on the exponential families + flat forwarding chains -------------------------
    cost_probe(ctx, real)

    # --- outside probe C19-1: a deciding directive next to an unevaluable one ---------------------------
    decisive_probe(ctx, real)

    # --- hunt2 C19/1: acyclic fragment chains 500 .. 3000 levels deep ---------------------------------
    deep_chain_probe(ctx, real, [500, 1200, 3000] if ctx.tier == "quick" else [500, 800, 1000, 1200, 3000])

    # --- sampled larger documents ---------------------------------------------------------
    n = ctx.n(220, 1500)
    for j in range(n):
        if ctx.time_left() < 8:
            ctx.notes.append("sampled stream stopped early at %d/%d" % (j, n))
            break
        base, doc = gen_doc(ctx.rng, counter)
        doc = prune_frags(doc)
        used = set()
        for o in doc["ops"]:
            used |= vars_in(o["sels"], doc["frags"])
        assigns = list(all_assignments(used))
        if len(assigns) > 4:
            assigns = ctx.rng.sample(assigns, 4)
        for vs in assigns:
            if used and ctx.rng.random() < 0.5:
                # some variables declared with a default; some of those omitted from the request
                decl = {v: (None if ctx.rng.random() < 0.4 else ctx.rng.random() < 0.5) for v in used}
                rvs = dict(vs)
                svs = dict(vs)
                for v, dflt in decl.items():
                    if dflt is not None and ctx.rng.random() < 0.6:
                        del rvs[v]
                        svs[v] = dflt            # what execution (and the specification) sees
                ctx.stat("declared-defaults")
                if len(rvs) < len(vs):
                    ctx.stat("defaulted-variable-omitted")
                cdef = Case(doc, svs, base=base, defaults=decl, real_vs=rvs)
                cdef.validate = ctx.rng.random() < 0.25     # same document, other declarations: full validation of a quarter
                check(cdef)
            else:
                check(Case(doc, vs, base=base))
        ctx.stat("sampled")
        uncoercible_stream(ctx, real, check, doc, assigns[0], j)
        if j % 2 == 0:
            cyclic_stream(ctx, real, check, doc, assigns[0])
        if j % 6 == 0 and j < 96 and used:
            entry_point_probe(ctx, real, doc, assigns[0])
        if used:
            history_check(ctx, real, doc, assigns, ctx.n(7, 14))
        ctx.stat("sampled-with-wrapper-directives" if base is None else "sampled-with-base(wrap oracle)")
        if j < 3:
            ctx.sample({"text": p_doc(doc), "variables": assigns[0], "spec_depths": [ref_depth(doc, i, assigns[0]) for i in range(len(doc["ops"]))]})
    flush()

    # --- raw variables: a defaulted directive variable omitted from the request ---------------
    for sels in ([F("a", [F("c")], d={"skip": {"var": "v0"}, "incl": None})],
                 [F("a", [F("b", [F("c")], d={"skip": None, "incl": {"var": "v1"}})])]):
        case = Case({"ops": [{"name": None, "sels": sels}], "frags": []}, {"v0": True, "v1": True}, defaults=True, real_vs={})
        ctx.count()
        ctx.stat("omitted-defaulted-variable")
        fails = oracle_failures(real, case, limits=[0, 1])
        if fails:
            report(ctx, real, case, fails)
        if ctx.model_ok:
            correspond(ctx, real, [case], fixed, sf_fixed, vars_fixed)


INT_OK = [7, "7", True, 0, -3]
INT_BAD = ["missing", None, "x", "", [1], {"k": 1}, 2 ** 31]


def uncoercible_stream(ctx, real, check, doc, vs0, j):
    """request variables that do NOT coerce for some operations and do for others: every operation gets (mostly) an extra `Int`
       variable (used as an argument of a root leaf `w<k>: d(i: $n<k>)`), and the request misses it / sends null / the wrong JSON
       kind; Boolean directive variables are sent as arrays (uncoercible: raw truthiness), strings, numbers (coercible: bool(v)).
       The rule must measure EVERY selected operation — with its coerced variables, or with the raw ones."""
    rng = ctx.rng
    doc2 = {"ops": [], "frags": doc["frags"]}
    for k, o in enumerate(doc["ops"]):
        o2 = dict(o)
        if rng.random() < 0.75:
            nn = rng.random() < 0.7
            dflt = None if nn or rng.random() < 0.5 else 5
            o2["xv"] = [{"n": "n%d" % k, "ty": "i", "nn": nn, "d": dflt}]
            o2["sels"] = o["sels"] + [dict(F("d", alias="w%d" % k), arg="n%d" % k)]
        doc2["ops"].append(o2)
    for variant in range(3):
        raw = dict(vs0)
        for o in doc2["ops"]:
            for x in o.get("xv", []):
                bad = rng.random() < (0.0 if variant == 0 else 0.6)
                v = rng.choice(INT_BAD) if bad else rng.choice(INT_OK)
                if isinstance(v, str) and v == "missing":
                    raw.pop(x["n"], None)
                else:
                    raw[x["n"]] = v
        if variant == 2 and vs0:
            v = rng.choice(sorted(vs0))
            raw[v] = rng.choice([[1], [], {"k": 1}, "yes", "", 1, 0])
        want_unavailable = variant == 2 and vs0 and j % 3 == 0
        if want_unavailable:
            v = rng.choice(sorted(vs0))
            if rng.random() < 0.5:
                raw.pop(v, None)
            else:
                raw[v] = None
        views, ok, unavailable = effective_views(doc2, False, raw)
        case = Case(doc2, views, real_vs=raw)
        case.raw = True
        case.unavailable = unavailable
        case.validate = (variant == 0 and j % 4 == 0)
        ctx.stat("uncoercible-stream")
        ctx.stat("operations-whose-variables-coerce", sum(ok))
        ctx.stat("operations-whose-variables-do-NOT-coerce", len(ok) - sum(ok))
        if any(ok) and not all(ok):
            ctx.stat("documents-with-coercible-and-uncoercible-operations")
        if any(unavailable):
            ctx.stat("directive-variable-unavailable")
        check(case, ("unco", p_doc(doc2), json.dumps(raw, sort_keys=True, default=str)))
    # the clause "the rule never raises, for any document and ANY JSON variables" on its own (no expectation on the flags:
    # float forms / nested containers are outside the modelled coercion)
    hostile = [1.5, 1e308 * 10, "1e5", "true", [[]], {"a": {"b": [1]}}, -2 ** 40, 10 ** 400, None, "", []]
    names = sorted(set(vs0) | {x["n"] for o in doc2["ops"] for x in o.get("xv", [])})
    if names:
        text = p_doc(doc2)
        document = real.parse(text)
        for _ in range(2):
            raw = {n: rng.choice(hostile) for n in names if rng.random() < 0.8}
            for via in (False, True):
                ctx.count()
                ctx.stat("any-json-variables-probe")
                got = real.flags(document, raw, rng.choice([0, 2]), None, via_validate=via)
                if isinstance(got, str):
                    views, ok, unavailable = effective_views(doc2, False, {k: v for k, v in raw.items() if not isinstance(v, float)})
                    feat = "directive-variable-unavailable" if got == "exc:CoercionError" and any(
                        v not in py_view(raw) for o in doc2["ops"] for v in vars_in(o["sels"], doc2["frags"])) else "any-json-variables"
                    ctx.fail("raises:%s:%s" % (got[4:], feat), "the depth rule raises for some JSON request variables",
                             {"text": text, "variables": json.loads(json.dumps(raw, default=str)), "via_validate_ast": via,
                              "never_raises_probe": True})
                    break


def frag_reach(frags, name):
    """names of the fragments reachable from fragment `name` (its own spreads, transitively)"""
    by = {f["name"]: f for f in frags}
    out, todo = set(), [name]
    while todo:
        n = todo.pop()
        if n not in by:
            continue
        stack = list(by[n]["sels"])
        while stack:
            x = stack.pop()
            if x["k"] in "fi":
                stack += x["s"]
            elif x["n"] not in out:
                out.add(x["n"])
                todo.append(x["n"])
    return out


def make_cyclic_case(doc, vs):
    views, ok, unavailable = effective_views(doc, False, vs)
    case = Case(doc, views, real_vs=dict(vs))
    case.raw, case.cyclic, case.validate, case.unavailable = True, True, False, unavailable
    return case


def cyclic_stream(ctx, real, check, doc, vs0):
    """CYCLIC documents (invalid: NoFragmentCycles rejects them, but every validator runs): a back edge is added to a generated
       document — self spread, indirect cycle, at the top of the fragment body or through a (new or existing) field. The rule must not
       raise, alone and behind the default validator; an operation that selects the cycle is reported at every limit, the others
       exactly as before."""
    rng = ctx.rng
    if not doc["frags"]:
        return
    frags = [dict(f, sels=list(f["sels"])) for f in doc["frags"]]
    i = rng.randrange(len(frags))
    target = frags[i]["name"]
    closers = [f["name"] for f in frags if f["name"] == target or target in frag_reach(frags, f["name"])]
    back = S(rng.choice(closers), d=rand_dirs(rng, 0.15))
    shape = rng.choice(["top", "field", "nested"])
    if shape == "top":
        frags[i]["sels"].insert(rng.randint(0, len(frags[i]["sels"])), back)
    elif shape == "field":
        frags[i]["sels"].append(F("a", [F("c"), back], alias="x"))
    else:
        objs = [k for k, x in enumerate(frags[i]["sels"]) if x["k"] == "f" and x["s"]]
        if objs:
            k = rng.choice(objs)
            frags[i]["sels"][k] = dict(frags[i]["sels"][k], s=frags[i]["sels"][k]["s"] + [back])
        else:
            frags[i]["sels"].append(back)
    cdoc = {"ops": doc["ops"], "frags": frags}
    case = make_cyclic_case(cdoc, vs0)
    ctx.stat("cyclic-documents")
    ctx.stat("cyclic:%s%s" % (shape, ":indirect" if back["n"] != target else ":self"))
    if any(ref_depth(cdoc, k, case.vs) == INF for k in range(len(cdoc["ops"]))):
        ctx.stat("cyclic-documents-where-an-operation-selects-the-cycle")
    check(case, ("cyc", p_doc(cdoc), json.dumps(vs0, sort_keys=True)))
    if ctx.stats.get("cyclic-documents", 0) % 4 == 1:
        cyclic_pipeline(ctx, real, cdoc, vs0, case.vs)


def cyclic_pipeline(ctx, real, cdoc, vs, views):
    """behind the default validator, through the entry point"""
    text = p_doc(cdoc)
    name = cdoc["ops"][0]["name"]
    ctx.count()
    got, base = pipeline_outcome(real, text, vs, name, 3, None)
    unbounded = any(ref_depth(cdoc, k, views) > 3 for k in range(len(cdoc["ops"])))
    if got.startswith("exc:") or (unbounded and got != "rejected-depth"):
        ctx.fail("%s:fragment-cycle:entry-point" % (("raises:" + got[4:]) if got.startswith("exc:") else "not-flagged"),
                 "graphql_blocking(validators=[default_validator, MaxDepthValidationRule(3)]) on a document with a fragment cycle "
                 "must answer with errors, not raise",
                 {"text": text, "variables": vs, "limit": 3, "operation_name": name, "rule_filter": None,
                  "entry_point": True, "outcome": got, "expected": "rejected-depth" if unbounded else "rejected-other"})


HUNT_CYCLIC = [
    {"ops": [{"name": None, "sels": [S("A")]}], "frags": [{"name": "A", "sels": [F("c"), S("A")]}]},
    {"ops": [{"name": None, "sels": [S("A")]}], "frags": [{"name": "A", "sels": [F("c"), S("B")]}, {"name": "B", "sels": [S("A")]}]},
    {"ops": [{"name": None, "sels": [S("A")]}], "frags": [{"name": "A", "sels": [F("a", [S("A")])]}]},
    # the cycle is not selected by Q1; Q0 selects it
    {"ops": [{"name": "Q0", "sels": [F("a", [S("A")])]}, {"name": "Q1", "sels": [F("a", [F("b", [F("c")])])]}],
     "frags": [{"name": "A", "sels": [F("b", [S("B")])]}, {"name": "B", "sels": [F("c"), S("A")]}]},
]


def deep_chain(k_frags, per=20):
    """`{ ...F0 }` + k fragments of `per` nested levels each, every one spreading the next (ACYCLIC; the text is only `per` levels
       deep): (text, wire document, depth)"""
    def body(i):
        inner = [S("F%d" % (i + 1))] if i + 1 < k_frags else [F("c")]
        for _ in range(per):
            inner = [F("a", inner)]
        return inner
    doc = {"ops": [{"name": None, "sels": [S("F0")]}], "frags": [{"name": "F%d" % i, "sels": body(i)} for i in range(k_frags)]}
    # levels = k*per nested `a` + the leaf; depth = levels - 1
    # printed / put on the wire without the (recursive) variable analysis: there are no variables
    text = "\n".join(["{ ...F0 }"] + ["fragment %s on Query %s" % (f["name"], p_sels(f["sels"])) for f in doc["frags"]])
    wire = strip(doc)
    for o in wire["ops"]:
        o["vd"] = []
    return text, wire, k_frags * per


def deep_chain_probe(ctx, real, depths):
    """ACYCLIC documents hundreds / thousands of levels deep through fragment chains are measured EXACTLY (no bound on the depth):
       flagged at limit depth-1, not at depth, not at 100000; never 'unbounded'. (The Python reference is recursive: the expected
       depth is known by construction.)"""
    for d in depths:
        if ctx.time_left() < 6:
            ctx.notes.append("deep chain probe stopped before depth %d" % d)
            return
        text, doc, depth = deep_chain(d // 20)
        document = real.parse(text)
        ctx.stat("deep-acyclic-chain")
        ctx.stat("deep-acyclic-chain-depth=%d" % depth)
        want = {depth - 1: [0], depth: [], 100000: []}
        got = {}
        for limit in want:
            ctx.count()
            got[limit] = real.flags(document, {}, limit, None)
        bad = [l for l in want if got[l] != want[l]]
        if bad:
            l = bad[0]
            kind = ("raises:" + got[l][4:]) if isinstance(got[l], str) else ("over-flagged" if not want[l] else "not-flagged")
            ctx.fail("%s:deep-acyclic-chain" % kind,
                     "an acyclic document %d levels deep (through %d fragments of 20 levels) is not measured exactly" % (depth, d // 20),
                     {"deep_chain_fragments": d // 20, "depth": depth, "limit": l, "flagged": got[l], "expected": want[l]})
        if ctx.model_ok and is_budgeted_tree():
            a = ctx.driver.ask([{"op": "check", "doc": doc, "vars": {}, "raw": {},
                                 "grid": [[None, depth - 1], [None, depth]], "maxdepths": []}])[0]
            model = a["rulecur"]
            impl = [got[depth - 1], got[depth]]
            if model != impl or a.get("spec") != [depth]:
                ctx.fail("corr:rule:deep-acyclic-chain", "model (exact at every depth) and implementation differ on a deep acyclic chain",
                         {"deep_chain_fragments": d // 20, "depth": depth, "impl": impl, "model": model, "lean_spec": a.get("spec")},
                         kind="correspondence")


class StepCounter:
    """counts the calls of collect_fields_untyped (its own recursive calls included) while the rule runs: a deterministic cost
       measure (wall time is not compared: the machine may be busy)"""

    def __enter__(self):
        import importlib
        self.cf = importlib.import_module("py_gql.utilities.collect_fields")
        self.md = importlib.import_module("py_gql.utilities.max_depth")
        self.orig = self.cf.collect_fields_untyped
        self.n = 0

        def counted(*a, **k):
            self.n += 1
            return self.orig(*a, **k)
        self.cf.collect_fields_untyped = counted
        self.md.collect_fields_untyped = counted
        return self

    def __exit__(self, *a):
        self.cf.collect_fields_untyped = self.orig
        self.md.collect_fields_untyped = self.orig


def family_inline(n):
    """hunt3 C19/2: every fragment spreads the next one twice, each spread wrapped in an inline fragment (valid, depth 0)"""
    return "\n".join(["{ ...F0 }"] + ["fragment F%d on Query { ... { ...F%d } ... { ...F%d } }" % (i, i + 1, i + 1) for i in range(n)]
                     + ["fragment F%d on Query { c }" % n]), 0


def family_bare(n):
    """hunt C19/2: every fragment spreads the next one twice below two fields (valid, depth n - 1)"""
    return "\n".join(["{ ...F1 }"] + ["fragment F%d on Query { a { ...F%d } b { ...F%d } }" % (i, i + 1, i + 1) for i in range(1, n)]
                     + ["fragment F%d on Query { c }" % n]), n - 1


def family_merge(L):
    """hunt3 C19/3: response-key merging across levels — 2^l distinct merged selection sets at level l (valid, depth L)"""
    parts = ["{ ...F_0_1 }"]
    for l in range(L):
        for j in range(1, l + 2):
            parts.append("fragment F_%d_%d on Query { p: a { ...F_%d_%d } q: a { ...F_%d_%d ...F_%d_1 } }"
                         % (l, j, l + 1, j + 1, l + 1, j + 1, l + 1))
    for j in range(1, L + 2):
        parts.append("fragment F_%d_%d on Query { c }" % (L, j))
    return "\n".join(parts), L


def family_forward(n):
    """hunt3 C19/1: a chain of forwarding fragments (valid, acyclic, FLAT: depth 0)"""
    return "\n".join(["{ ...F0 }"] + ["fragment F%d on Query { ...F%d }" % (i, i + 1) for i in range(n)]
                     + ["fragment F%d on Query { c }" % n]), 0


def decisive_docs():
    """outside probe C19-1: a selection carrying BOTH directives, one of which decides (a literal) while the other needs a variable the
       rule has no value for. Deterministic: 2 decisive + 2 control directive pairs x field / inline fragment / fragment spread."""
    deep = [F("a", [F("a", [F("a", [F("c")])])])]
    pairs = [("skip-true+include-unknown", {"skip": {"lit": True}, "incl": {"var": "v0"}}, True),
             ("include-false+skip-unknown", {"skip": {"var": "v0"}, "incl": {"lit": False}}, True),
             ("skip-false+include-unknown", {"skip": {"lit": False}, "incl": {"var": "v0"}}, False),
             ("include-true+skip-unknown", {"skip": {"var": "v0"}, "incl": {"lit": True}}, False)]
    for pname, d, decisive in pairs:
        for kind in ("field", "inline", "spread"):
            if kind == "field":
                node, frags = F("a", deep, d=d), []
            elif kind == "inline":
                node, frags = I(deep, d=d), []
            else:
                node, frags = S("F0", d=d), [{"name": "F0", "sels": deep}]
            doc = {"ops": [{"name": "A", "sels": [F("c")]}, {"name": "B", "sels": [F("c"), node]}], "frags": frags}
            yield "%s:%s" % (pname, kind), doc, decisive


def decisive_probe(ctx, real, k=None):
    """DIRECT oracle with the three-valued reference (whatever the tree does): operation B has depth 0 for every value of the unknown
       variable when ONE directive decides, so nothing may be reported at limit 1 - without variables, under the filter "B", and for a
       request executing the flat operation A through graphql_blocking; the control pairs (the literal does not decide) stay reported
       (upper bound). + the model of the tree under test against the code on the same documents."""
    cases = []
    ok = True
    for j, (name, doc, decisive) in enumerate(decisive_docs()):
        if k is not None and j != k:
            continue
        text = p_doc(doc)
        if "@skip" in text and "@include" in text and j % 2 == 1:     # the other textual order of the two directives
            import re as _re
            text = _re.sub(r"(@skip\(if: [^)]*\)) (@include\(if: [^)]*\))", r"\2 \1", text)
        document = real.parse(text)
        ctx.count()
        ctx.stat("decisive-probe:" + name.split(":")[0])
        want = [] if decisive else [1]
        assert expected_flags(doc, {}, 1, None) == ([] if (decisive and SEPARATE[0]) else [1])       # the tree's own reading
        got = [real.flags(document, None, 1, None), real.flags(document, {}, 1, "B")]
        out, _ = pipeline_outcome(real, text, {}, "A", 1, None)
        bad = [g for g in got if g != want] or (decisive and out != "executed")
        if bad:
            ok = False
            ctx.fail("%s:decisive-directive-beside-unknown" % ("over-flagged" if decisive else "not-flagged"),
                     "a selection excluded by ONE directive whatever the other (unevaluable) one is, is still measured: the operation "
                     "is reported although its depth is 0 for every value of the unknown variable" if decisive else
                     "a selection whose only evaluable directive does not exclude it is no longer measured (the upper bound over the "
                     "unknown condition is lost)",
                     {"decisive": j, "class": name, "text": text, "flags_no_variables": got[0], "flags_filter_B": got[1],
                      "request_executing_A": out, "expected_flags": want})
        if k is None:
            views, cok, unavailable = effective_views(doc, False, {})
            c = Case(doc, views, real_vs={})
            c.raw, c.unavailable, c.validate = True, unavailable, False
            cases.append(c)
    if cases:
        correspond(ctx, real, cases, True)
    return ok


def cost_probe(ctx, real):
    """COST oracle (every run): on valid documents of these families the rule answers exactly (flagged at depth-1, not at depth) within a
       number of collections polynomial in the size of the document: steps <= 40 * (selection nodes + fragments)."""
    fams = [("inline-wrapped-spreads", family_inline, [6, 10, 14]), ("fragments-spread-twice", family_bare, [6, 10, 14]),
            ("key-merging-across-levels", family_merge, [4, 8, 12])]
    for name, mk, sizes in fams:
        for n in sizes:
            text, depth = mk(n)
            document = real.parse(text)
            nodes = text.count("...") + text.count(" a ") + text.count(" b ") + text.count(" c ") + text.count("fragment ")
            ctx.count()
            ctx.stat("cost-probe:" + name)
            with StepCounter() as sc:
                got = {l: real.flags(document, {}, l, None) for l in ({depth - 1, depth} if depth else {0})}
            want = {l: ([0] if l < depth else []) for l in got}
            if got != want:
                ctx.fail("%s:cost-family:%s" % ("raises" if any(isinstance(v, str) for v in got.values()) else "wrong-verdict", name),
                         "wrong verdict on a valid document of the %s family" % name, {"cost_family": name, "n": n, "got": str(got), "want": str(want)})
                break
            bound = 40 * nodes * len(got)
            if sc.n > bound:
                ctx.fail("steps-exponential:%s" % name,
                         "the depth rule needs a number of collections exponential in the size of a valid document (%s family): "
                         "%d collect_fields_untyped calls for %d selection nodes (n=%d); bound %d" % (name, sc.n, nodes, n, bound),
                         {"cost_family": name, "n": n, "steps": sc.n, "nodes": nodes, "bound": bound, "depth": depth})
                break
    # flat forwarding chains: exact (depth 0) below the interpreter's limit; beyond it the rule cannot measure
    for n in (400, 1200):
        text, depth = family_forward(n)
        document = real.parse(text)
        ctx.count()
        ctx.stat("cost-probe:forwarding-chain-%d" % n)
        got = real.flags(document, {}, 0, None)
        if got != []:
            ctx.fail("%s:flat-forwarding-chain" % ("raises:" + got[4:] if isinstance(got, str) else "over-flagged"),
                     "a FLAT operation (depth 0) that reaches its field through %d forwarding fragments is reported as exceeding the limit" % n,
                     {"forwarding_chain": n, "flagged": got, "expected": []})
            break


def pipeline_outcome(real, text, vs, name, limit, rule_filter):
    """graphql_blocking(schema, text, variables, validators=[default_validator, MaxDepthValidationRule(limit, operation_name=f)]):
       'executed' | 'rejected-depth' | 'rejected-other' | 'exc:<Class>'; the depth errors are the errors the rule ADDS to those of the
       default validator alone (no message matching). Returns (outcome, number of default-validator errors)."""
    from py_gql import graphql_blocking
    from py_gql.validation import default_validator, validate_ast
    try:
        base = len(validate_ast(real.schema, real.parse(text), validators=[default_validator], variables=vs).errors)
        res = graphql_blocking(real.schema, text, variables=vs, operation_name=name, root={},
                               validators=[default_validator, real.Rule(limit, operation_name=rule_filter)])
    except Exception as e:  # noqa
        return "exc:" + type(e).__name__, None
    errs = list(res.errors or [])
    try:
        has_data = "data" in res.response()       # an aborted request has no `data` entry
    except Exception as e:  # noqa
        return "exc:" + type(e).__name__, None
    if has_data or not errs:
        return "executed", base
    return ("rejected-depth" if len(errs) > base else "rejected-other"), base


def entry_point_probe(ctx, real, doc, vs):
    """the rule as users install it — the pipeline of theorem `pipeline_rejects_iff`:
       graphql_blocking(..., validators=[default_validator, MaxDepthValidationRule(n, operation_name=f)]) with request variables"""
    text = p_doc(doc)
    name = doc["ops"][0]["name"]
    d0 = ref_depth(doc, 0, vs)
    probes = []
    for limit in sorted({0, max(d0 - 1, 0), d0}):
        for filt in ([name, None] if name else [None]):
            probes.append((limit, filt))
    model = None
    if ctx.model_ok:
        outs = [pipeline_outcome(real, text, vs, name, l, f) for l, f in probes]
        base = next((b for _, b in outs if b is not None), 0)
        model = ctx.driver.ask([{"op": "check", "doc": wire_doc(doc), "vars": vs, "grid": [[f, l] for l, f in probes],
                                 "maxdepths": [], "derr": base}])[0]["pipeline"]
    else:
        outs = [pipeline_outcome(real, text, vs, name, l, f) for l, f in probes]
    for k, ((limit, filt), (got, base)) in enumerate(zip(probes, outs)):
        ctx.count()
        ctx.stat("entry-point-probe")
        deep = [i for i, o in enumerate(doc["ops"]) if selected(filt, o) and ref_depth(doc, i, vs) > limit]
        if got.startswith("exc:"):
            want = "no exception"
        else:
            want = "rejected-depth" if deep else ("executed" if base == 0 else "rejected-other")
        if got != want:
            kind = ("raises:%s" % got[4:]) if got.startswith("exc:") else ("not-flagged" if deep else "over-flagged")
            ctx.fail("%s:entry-point%s" % (kind, ":limit-0" if limit == 0 else "-variables"),
                     "graphql_blocking(validators=[default_validator, MaxDepthValidationRule(n)]) does not reject exactly the requests whose "
                     "selected operation is deeper than n under the coerced variables",
                     {"text": text, "variables": vs, "limit": limit, "operation_name": name, "rule_filter": filt,
                      "spec_depths": [ref_depth(doc, i, vs) for i in range(len(doc["ops"]))],
                      "entry_point": True, "outcome": got, "expected": want})
            return
        if model is not None:
            m = ERRMAP.get(model[k], model[k])
            if m != got:
                ctx.fail("corr:pipeline", "model of the validation pipeline and graphql_blocking differ",
                         {"text": text, "variables": vs, "limit": limit, "rule_filter": filt, "impl": got, "model": m}, kind="correspondence")
                return


def run_history(real, text, steps, keep=None):
    """One parsed Document and one rule instance per (limit, filter), reused over the whole sequence.
       steps: [[limit, filter, variables, via_validate_ast]]. Returns the results, one per step.
       keep: a list that receives (rule instance, document) per step (for ctx.later)."""
    document = real.parse(text)
    instances = {}
    out = []
    for limit, filt, vs, via in steps:
        key = (limit, filt)
        if key not in instances:
            instances[key] = real.Rule(limit, operation_name=filt)
        out.append(real.flags_with(instances[key], document, dict(vs), via_validate=via))
        if keep is not None:
            keep.append((instances[key], document))
    return out


def register_later(ctx, real, text, steps, got, kept, wanted):
    """ctx.later: the SAME rule instance on the SAME parsed Document is called again at the very end of the run
       (after every other document, history and entry-point call of this process)."""
    for st, g, (rule, document), want in zip(steps, got, kept, wanted):
        if g != want:
            continue
        limit, filt, vs, via = st
        ctx.later("rule-call:%s" % ("validate_ast" if via else "direct"),
                  (lambda rule=rule, document=document, vs=dict(vs), via=via: real.flags_with(rule, document, dict(vs), via_validate=via)),
                  g, {"text": text, "limit": limit, "filter": filt, "variables": vs, "via_validate_ast": via})


def fresh_results(real, text, steps):
    """the same calls, each on a fresh rule instance and a freshly parsed document"""
    return [real.flags(real.parse(text), dict(vs), limit, filt, via_validate=via) for limit, filt, vs, via in steps]


def history_check(ctx, real, doc, assigns, nsteps):
    """HISTORIES: the result of a call must not depend on earlier calls of the same rule instance / on the same Document
       object: it must equal the result of a fresh instance on a freshly parsed document (= the specification)."""
    text = p_doc(doc)
    depths = sorted({ref_depth(doc, i, vs) for vs in assigns for i in range(len(doc["ops"]))})
    limits = sorted({max(d - 1, 0) for d in depths} | set(depths[:-1] or depths))[:4] or [0]
    filters = filters_of(doc)[:3]
    steps = []
    for _ in range(nsteps):
        steps.append([ctx.rng.choice(limits), ctx.rng.choice(filters) if ctx.rng.random() < 0.4 else None,
                      ctx.rng.choice(assigns), ctx.rng.random() < 0.25])
    kept = []
    got = run_history(real, text, steps, keep=kept)
    register_later(ctx, real, text, steps, got, kept, [expected_flags(doc, st[2], st[0], st[1]) for st in steps])
    ctx.count(len(steps))
    ctx.stat("history-steps", len(steps))
    if len(depths) > 1:
        ctx.stat("histories-where-variables-change-the-depth")
        ctx.nontrivial(("history", text, json.dumps(steps, sort_keys=True)))
    for k, (st, g) in enumerate(zip(steps, got)):
        want = expected_flags(doc, st[2], st[0], st[1])
        if g == want:
            continue
        fresh = fresh_results(real, text, [st])[0]
        if fresh != want:
            return          # not history dependence: the plain oracle reports this input
        # shrink: one earlier step that is enough to make step k go wrong
        small = steps[:k + 1]
        for j in range(k):
            cand = [steps[j], st]
            if run_history(real, text, cand)[-1] != want:
                small = cand
                break
        first, last = small[0], small[-1]
        changed = "+".join(n for n, a, b in (("variables", first[2], last[2]), ("limit", first[0], last[0]),
                                             ("filter", first[1], last[1])) if a != b) or "same-call"
        same_inst = (first[0], first[1]) == (last[0], last[1])
        ctx.fail("history:%s:%s:%s" % ("stale-flag" if isinstance(g, list) else "raises",
                                       "same-instance" if same_inst else "same-document", changed),
                 "the result of MaxDepthValidationRule depends on earlier calls (%s reused; %s differ between the calls): "
                 "it differs from a fresh instance on a freshly parsed document" % ("rule instance and Document" if same_inst else "Document", changed),
                 {"text": text, "history": small, "got_last": run_history(real, text, small)[-1], "expected_last": want})
        return


HISTORY_CORPUS = [
    # (text, steps)  -- the shape named by the integrator: depth 1 / 3 steered by one variable, limit 2
    ("query($deep: Boolean!) { a { c a @include(if: $deep) { a { c } } } }",
     [[2, None, {"deep": False}, False], [2, None, {"deep": True}, False]]),
    ("query($deep: Boolean!) { a { c a @include(if: $deep) { a { c } } } }",
     [[2, None, {"deep": True}, False], [2, None, {"deep": False}, False]]),
    ("query A($deep: Boolean!) { a { c ...F @skip(if: $deep) } } query B { c } fragment F on Query { a { a { a { c } } } }",
     [[1, "A", {"deep": True}, True], [1, "A", {"deep": False}, True], [1, None, {"deep": True}, False], [3, "A", {"deep": False}, False]]),
]


def doc_with_types(doc):
    return doc


def replay(ctx, data):
    inp = data.get("input", {})
    real = Real()
    try:
        SEPARATE[0] = is_separate_directives_tree()
    except Exception:  # noqa
        SEPARATE[0] = False
    if "decisive" in inp:
        return decisive_probe(ctx, real, k=inp["decisive"])
    if "forwarding_chain" in inp:
        text, _ = family_forward(inp["forwarding_chain"])
        return real.flags(real.parse(text), {}, 0, None) == []
    if "cost_family" in inp:
        mk = {"inline-wrapped-spreads": family_inline, "fragments-spread-twice": family_bare, "key-merging-across-levels": family_merge}[inp["cost_family"]]
        text, depth = mk(inp["n"])
        document = real.parse(text)
        nodes = text.count("...") + text.count(" a ") + text.count(" b ") + text.count(" c ") + text.count("fragment ")
        with StepCounter() as sc:
            ok = real.flags(document, {}, depth, None) == [] and (depth == 0 or real.flags(document, {}, depth - 1, None) == [0])
        return ok and sc.n <= 40 * nodes * (2 if depth else 1)
    if "deep_chain_fragments" in inp:
        text, doc, depth = deep_chain(inp["deep_chain_fragments"])
        document = real.parse(text)
        return (real.flags(document, {}, depth - 1, None) == [0] and real.flags(document, {}, depth, None) == []
                and real.flags(document, {}, 100000, None) == [])
    if inp.get("never_raises_probe"):
        document = real.parse(inp["text"])
        return not any(isinstance(real.flags(document, inp["variables"], l, None, via_validate=v), str)
                       for l in (0, 2) for v in (False, True))
    if "history" in inp:
        steps = inp["history"]
        hdoc = conv_doc(real.parse(inp["text"]))
        got = run_history(real, inp["text"], steps)
        return all(g == expected_flags(hdoc, st[2], st[0], st[1]) for st, g in zip(steps, got))
    if inp.get("entry_point"):
        got, _ = pipeline_outcome(real, inp["text"], inp["variables"], inp["operation_name"], inp["limit"], inp.get("rule_filter"))
        return got == inp["expected"]
    document = real.parse(inp["text"])
    doc = conv_doc(document)
    sv = inp.get("spec_variables", inp.get("variables", {}))
    case = Case(doc, PerOp(sv) if isinstance(sv, list) else sv, real_vs=inp.get("variables", {}))
    # the text is authoritative (it already carries the variable declarations): evaluate the oracle on it directly
    vs = case.vs
    ok = True
    for filt in filters_of(doc):
        for limit in LIMITS:
            for via in (False, True):
                if real.flags(document, case.real_vs, limit, filt, via_validate=via) != expected_flags(doc, vs, limit, filt):
                    ok = False
    if ok and paths_failure(real, case, document):
        ok = False
    if "base_text" in inp and ok:
        bdoc = real.parse(inp["base_text"])
        for i in range(len(doc["ops"])):
            m0, m1 = measured(real, bdoc, vs, i), measured(real, document, vs, i)
            if m0 is not None and m1 is not None and m1 < m0:
                ok = False
    return ok

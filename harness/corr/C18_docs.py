# -*- coding: utf-8 -*-
"""
C18 — compact seeded generator of GraphQL document TEXTS (executable and type-system),
covering every node kind of `py_gql.lang.ast`, plus a bounded-exhaustive list of small documents.
Every random choice comes from the `rng` argument.
"""

NAMES = ["a", "b", "c", "foo", "bar", "id", "node", "T", "U", "Int", "String", "on_", "x1"]
TYPES = ["Int", "String", "T", "U", "Boolean", "ID"]


def _name(rng):
    return rng.choice(NAMES)


def gen_type(rng, depth=0):
    r = rng.random()
    if depth < 3 and r < 0.25:
        return "[%s]" % gen_type(rng, depth + 1)
    if depth < 3 and r < 0.45:
        inner = gen_type(rng, depth + 1)
        return inner if inner.endswith("!") else inner + "!"
    return rng.choice(TYPES)


def gen_value(rng, const, depth=0):
    r = rng.random()
    if not const and r < 0.15:
        return "$" + _name(rng)
    if depth < 3 and r < 0.3:
        return "[%s]" % ", ".join(gen_value(rng, const, depth + 1) for _ in range(rng.randrange(0, 4)))
    if depth < 3 and r < 0.45:
        return "{%s}" % ", ".join("%s: %s" % (_name(rng), gen_value(rng, const, depth + 1)) for _ in range(rng.randrange(0, 3)))
    return rng.choice(["1", "-20", "1.5", "2e3", "true", "false", "null", "ENUM", "RED", '"str"', '""', '"""block\n  text"""', '"a\\nb"'])


def gen_args(rng, const, p=0.4):
    if rng.random() > p:
        return ""
    return "(%s)" % ", ".join("%s: %s" % (_name(rng), gen_value(rng, const)) for _ in range(rng.randrange(1, 4)))


def gen_directives(rng, const, p=0.3):
    out = []
    while rng.random() < p and len(out) < 3:
        out.append("@%s%s" % (_name(rng), gen_args(rng, const)))
    return (" " + " ".join(out)) if out else ""


def gen_selection_set(rng, depth):
    n = rng.randrange(1, 4)
    sels = []
    for _ in range(n):
        r = rng.random()
        if r < 0.6 or depth >= 3:
            alias = (_name(rng) + ": ") if rng.random() < 0.2 else ""
            sub = (" " + gen_selection_set(rng, depth + 1)) if (depth < 3 and rng.random() < 0.35) else ""
            sels.append("%s%s%s%s%s" % (alias, _name(rng), gen_args(rng, False), gen_directives(rng, False), sub))
        elif r < 0.8:
            sels.append("...%s%s" % (rng.choice(["F1", "F2", "frag"]), gen_directives(rng, False)))
        else:
            tc = (" on " + rng.choice(TYPES)) if rng.random() < 0.6 else ""
            sels.append("...%s%s %s" % (tc, gen_directives(rng, False), gen_selection_set(rng, depth + 1)))
    return "{ %s }" % rng.choice([" ", ", ", "\n  "]).join(sels)


def gen_vardefs(rng, p=0.5):
    if rng.random() > p:
        return ""
    out = []
    for _ in range(rng.randrange(1, 4)):
        d = (" = " + gen_value(rng, True)) if rng.random() < 0.5 else ""
        out.append("$%s: %s%s%s" % (_name(rng), gen_type(rng), d, gen_directives(rng, True, 0.25)))
    return "(%s)" % ", ".join(out)


def gen_operation(rng, keyword=False):
    r = rng.random()
    if r < 0.2 and not keyword:
        return gen_selection_set(rng, 0)
    op = rng.choice(["query", "mutation", "subscription"])
    name = (" " + rng.choice(["Q", "M", "op"])) if rng.random() < 0.7 else ""
    return "%s%s%s%s %s" % (op, name, gen_vardefs(rng), gen_directives(rng, False), gen_selection_set(rng, 0))


def gen_fragment(rng, fragvars):
    vd = gen_vardefs(rng, 0.6) if fragvars else ""
    return "fragment %s%s on %s%s %s" % (rng.choice(["F1", "F2", "frag"]), vd, rng.choice(TYPES), gen_directives(rng, False), gen_selection_set(rng, 1))


def gen_executable(rng, fragvars=False, n=None):
    n = n or rng.randrange(1, 4)
    return "\n".join(gen_operation(rng) if rng.random() < 0.65 else gen_fragment(rng, fragvars) for _ in range(n))


def gen_desc(rng, p=0.35):
    if rng.random() > p:
        return ""
    return rng.choice(['"desc" ', '"""block desc"""\n', '"" '])


def gen_input_value_def(rng):
    d = (" = " + gen_value(rng, True)) if rng.random() < 0.45 else ""
    return "%s%s: %s%s%s" % (gen_desc(rng, 0.2), _name(rng), gen_type(rng), d, gen_directives(rng, True, 0.25))


def gen_argdefs(rng, p=0.4):
    if rng.random() > p:
        return ""
    return "(%s)" % ", ".join(gen_input_value_def(rng) for _ in range(rng.randrange(1, 3)))


def gen_field_def(rng):
    return "%s%s%s: %s%s" % (gen_desc(rng, 0.2), _name(rng), gen_argdefs(rng), gen_type(rng), gen_directives(rng, True, 0.25))


def gen_fields(rng, fn, allow_empty):
    if allow_empty and rng.random() < 0.25:
        return ""
    return " { %s }" % rng.choice([" ", "\n  "]).join(fn(rng) for _ in range(rng.randrange(1, 4)))


def gen_type_system_def(rng):
    k = rng.randrange(0, 16)
    D = lambda: gen_directives(rng, True, 0.3)  # noqa: E731
    tn = rng.choice(["Foo", "Bar", "Baz"])
    if k == 0:
        ops = " ".join("%s: %s" % (o, rng.choice(TYPES)) for o in rng.sample(["query", "mutation", "subscription"], rng.randrange(1, 4)))
        return "schema%s { %s }" % (D(), ops)
    if k == 1:
        ops = " ".join("%s: %s" % (o, rng.choice(TYPES)) for o in rng.sample(["query", "mutation", "subscription"], rng.randrange(1, 3)))
        d = D()
        return "extend schema%s { %s }" % (d, ops) if (rng.random() < 0.7 or not d) else "extend schema%s" % d
    if k == 2:
        return "%sscalar %s%s" % (gen_desc(rng), tn, D())
    if k == 3:
        return "extend scalar %s @%s%s" % (tn, _name(rng), gen_args(rng, True))
    if k in (4, 5):
        impl = (" implements " + " & ".join(rng.sample(TYPES, rng.randrange(1, 3)))) if rng.random() < 0.5 else ""
        if k == 4:
            return "%stype %s%s%s%s" % (gen_desc(rng), tn, impl, D(), gen_fields(rng, gen_field_def, True))
        body = gen_fields(rng, gen_field_def, True)
        d = D()
        if not (impl or d or body):
            d = " @x"
        return "extend type %s%s%s%s" % (tn, impl, d, body)
    if k == 6:
        return "%sinterface %s%s%s" % (gen_desc(rng), tn, D(), gen_fields(rng, gen_field_def, True))
    if k == 7:
        body = gen_fields(rng, gen_field_def, True)
        d = D()
        if not (d or body):
            d = " @x"
        return "extend interface %s%s%s" % (tn, d, body)
    if k == 8:
        types = (" = " + " | ".join(rng.sample(TYPES, rng.randrange(1, 4)))) if rng.random() < 0.8 else ""
        return "%sunion %s%s%s" % (gen_desc(rng), tn, D(), types)
    if k == 9:
        types = (" = " + " | ".join(rng.sample(TYPES, rng.randrange(1, 3)))) if rng.random() < 0.7 else ""
        d = D()
        if not (d or types):
            d = " @x"
        return "extend union %s%s%s" % (tn, d, types)
    if k in (10, 11):
        ev = lambda r: "%s%s%s" % (gen_desc(r, 0.2), r.choice(["RED", "GREEN", "BLUE"]), gen_directives(r, True, 0.25))  # noqa: E731
        body = gen_fields(rng, ev, True)
        d = D()
        if k == 10:
            return "%senum %s%s%s" % (gen_desc(rng), tn, d, body)
        if not (d or body):
            d = " @x"
        return "extend enum %s%s%s" % (tn, d, body)
    if k in (12, 13):
        body = gen_fields(rng, gen_input_value_def, True)
        d = D()
        if k == 12:
            return "%sinput %s%s%s" % (gen_desc(rng), tn, d, body)
        if not (d or body):
            d = " @x"
        return "extend input %s%s%s" % (tn, d, body)
    locs = " | ".join(rng.sample(["QUERY", "FIELD", "FIELD_DEFINITION", "ENUM_VALUE", "SCHEMA"], rng.randrange(1, 3)))
    return "%sdirective @%s%s on %s" % (gen_desc(rng), _name(rng), gen_argdefs(rng, 0.5), locs)


def gen_type_system(rng, n=None, mixed=False):
    n = n or rng.randrange(1, 4)
    defs = [gen_type_system_def(rng) for _ in range(n)]
    if mixed and rng.random() < 0.5:
        defs.insert(rng.randrange(0, len(defs) + 1), gen_operation(rng, True))
    return "\n".join(defs)


# -- bounded-exhaustive small documents: one per syntactic feature (and pairs through the generator above) -----------

SMALL_EXECUTABLE = [
    "{ a }",
    "{ a b }",
    "{ a { b } c }",
    "{ x: a(p: 1) }",
    "{ a(p: 1, q: [1, $v], r: {k: 1, l: [2]}) }",
    "{ a @d @e(p: 1) }",
    "{ ...F1 }",
    "{ ...F1 @d(p: 1) @e }",
    "{ ... { a } }",
    "{ ... on T { a } }",
    "{ ... on T @d { a b } }",
    "query Q { a }",
    "query Q($v: Int) { a }",
    "query Q($v: [Int!]! = [1]) { a }",
    "query Q($v: Int = 1 @d, $w: [T]) @e { a(p: $v) }",
    "query Q($v: T = {k: [1, {l: null}]}) { a }",
    "mutation { a { b { c } } }",
    "subscription S @d { a }",
    "fragment F1 on T { a }",
    "fragment F1 on T @d(p: [1]) { a ...F2 }",
    "{ a } fragment F1 on T { b } { c }",
    '{ a(s: "x", b: """y""", e: E, f: 1.5, t: true, n: null) }',
]

SMALL_EXECUTABLE_FRAGVARS = [
    "fragment F1($v: Int) on T { a }",
    "fragment F1($v: [Int] = [1] @d, $w: T!) on T @e { a(p: $v) }",
]

SMALL_TYPE_SYSTEM = [
    "schema { query: Q }",
    "schema @d(p: 1) @e { query: Q mutation: M }",
    "extend schema @d",
    "extend schema @d { subscription: S }",
    "scalar S",
    '"desc" scalar S @d',
    "extend scalar S @d(p: 1)",
    "type T",
    "type T { a: Int }",
    '"""desc""" type T implements I & J @d { "fd" a(x: Int = 1 @e, "ad" y: [T!]!): [Int]! @f b: T }',
    "extend type T implements I",
    "extend type T @d { a: Int }",
    "interface I { a(x: T = {k: [1, 2]}): T }",
    '"desc" interface I @d',
    "extend interface I @d { a: Int }",
    "union U = A | B",
    '"desc" union U @d = A',
    "union U",
    "extend union U @d = A | B",
    "enum E { A B }",
    '"desc" enum E @d { "vd" A @e B }',
    "extend enum E @d { C }",
    "input I { a: Int = 1 b: [T] = [1, 2] @d }",
    '"desc" input I @d { "fd" a: T! = {k: 1} }',
    "extend input I @d { a: Int }",
    "directive @d on FIELD",
    '"desc" directive @d(a: Int = 1 @e, "ad" b: [T!]) on FIELD | QUERY',
]


# documents parsed WITHOUT locations: structurally equal siblings are `==` (only identity tells them apart)
NOLOC_EXECUTABLE = [
    "{ id name id friends { id } id }",
    "{ a a a }",
    "{ a(x: 1, y: 1, x: 1) @d @d(p: [1, 1, 2, 1]) @d }",
    "{ a(o: {k: 1, l: 1, k: 1}, p: [[1], [1], [1]]) ...F ...F ... { a } ... { a } ... on T { a } ... on T { a } }",
    "query Q($v: Int, $v: Int = 1, $v: Int = 1) @d @d { a } query Q($v: Int, $v: Int = 1, $v: Int = 1) @d @d { a }",
    "fragment F on T { a a } fragment F on T { a a } { b } { b }",
]
NOLOC_TYPE_SYSTEM = [
    "type T implements I & I @d @d { f: Int f: Int g(x: Int = 1, x: Int = 1): Int g(x: Int = 1, x: Int = 1): Int }",
    "scalar S scalar S enum E { A A @d @d } enum E { A A @d @d } union U = A | A | B | A",
    "input I { a: Int = [1, 1] a: Int = [1, 1] } interface J { f: Int f: Int } directive @d(a: Int, a: Int) on FIELD | FIELD",
    "schema @d @d { query: Q query: Q } extend schema @d @d extend type T @x @x extend type T @x @x",
]

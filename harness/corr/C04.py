# -*- coding: utf-8 -*-
"""
C04 — execution yields the specified result for every valid operation.

Three executions of every generated request are compared:
  impl   real `graphql_blocking` (BlockingExecutor) on a Schema object with world resolvers,
  model  lean/PyGqlModel/Exec.lean   (mirrors collect_fields / execute_fields / complete_value ...),
  spec   lean/PyGqlModel/Spec/ExecSpec.lean (June-2018 CollectFields / ExecuteSelectionSet / CompleteValue
         with the library's documented null handling)  and, independently of the Lean tool-chain,
         the small Python reference of the same algorithm in corr/exec_common.py.
Compared: ORDERED data and the multiset of errors (path, locations, kind, world message/extensions).
"""
import json

from corr import exec_common as X
from gen import operation as go
from gen import schema as gs
from gen import leading_node as LN

PROPERTY = "C04"
RULE = ("requests = (generated schema with all six kinds + wrappers + enum internals, generated VALID operation "
        "[fragments, inline fragments, aliases, merged same-key fields, @skip/@include with literals/variables, "
        "abstract types, list fields, arguments as literals/variables], variable assignment, world seed); a request is "
        "distinct by (schema, document, variables, seed) and non-trivial when the response has >=2 keys or a nested "
        "object/list or >=1 field error; histories = random order of all requests of one Schema object + re-execution "
        "of an earlier request at the end; PLUS a fixed block (corr/C04_runtimes.py: 8 documents x 6 worlds x "
        "{graphql_blocking, process_graphql_query, py_gql.graphql on asyncio with coroutine resolvers completing in reverse / "
        "mixed / hashed order}) compared with the specification, deterministic (reads no randomness)")
ASSUMPTIONS = [
    "argument coercion: the Lean side coerces the argument NODES itself with C07's model (ExecArgs.lean, Coerce.lean) and renders the "
    "kwargs canonically; the Python reference spec still reads the table computed by the real coerce_argument_values (C07 owns its correctness)",
    "resolvers are worlds: a fixed hash of (seed, parent type, field, response path, canonical arguments); no other resolver behaviour is quantified",
    "introspection meta fields other than __typename and subscriptions are outside the generator (C15 / C17)",
    "a document that makes validate_ast raise never reaches execution (none does on /repo HEAD after fixes V1/V2/V7; C05 reports such documents)",
]
TRUSTED = [
    "corr/C04_runtimes.py: asyncio completion order is made a function of the request with `await asyncio.sleep(0)` repeated k times "
    "(FIFO ready queue of the event loop); all completion orders / thread pools are C08's",
    "corr/exec_common.py: world function (mirrored by PyGqlModel/World.lean), AST->JSON converter, canonicalisation, Python reference of the spec algorithm",
    "gen/operation.py: generator of valid operations (every generated document is re-validated with the real validate_ast)",
    "Props/C04_history.lean models the Document store as never written by a request; the tie to the code is the oracle of "
    "run_shared: Document.to_dict() before == after serving (and every response on a shared Document == response of a fresh parse)",
    "Props/C04_history.lean models Executor/ResolutionContext memo tables as created empty per request (execute() constructs the executor); "
    "tied to the code by the history streams (same Schema object, shared Documents, fresh Schema object)",
]
EXPLANATION = ("model = Exec.lean (code-shaped, with the _seen_fragments quirk and explicit internalError outcomes); "
               "spec = Spec/ExecSpec.lean; theorems in Props/C04.lean relate them; this correspondence ties the model to the code.")


def features_sig(text):
    f = []
    if "..." in text:
        f.append("spread" if any(tok.startswith("...") and len(tok) > 3 and tok[3].isalpha() and not tok.startswith("...on")
                                 for tok in text.replace("... ", "...").split()) else "inline")
    if "@skip" in text or "@include" in text:
        f.append("directive")
    if ":" in text.split("{", 1)[-1]:
        f.append("alias-or-arg")
    if "fragment " in text:
        f.append("fragdef")
    return "+".join(f) or "plain"


def classify(a, b):
    """short description of how two canonical results differ"""
    if ("data" in a) != ("data" in b):
        return "outcome-kind"
    if "data" not in a:
        return "abort-kind"
    if X.ordered_dump(a["data"]) != X.ordered_dump(b["data"]):
        if json.dumps(a["data"], sort_keys=True) == json.dumps(b["data"], sort_keys=True):
            return "key-order"
        return "data"
    pa = sorted(json.dumps(e["path"]) for e in a["errors"])
    pb = sorted(json.dumps(e["path"]) for e in b["errors"])
    if pa != pb:
        return "error-paths"
    return "error-details"


def nontrivial(res):
    if "data" not in res or not isinstance(res["data"], dict):
        return False
    d = res["data"]
    return len(d) >= 2 or any(isinstance(v, (dict, list)) for v in d.values()) or bool(res["errors"])


class Case:
    __slots__ = ("sdl", "enum_kind", "text", "variables", "opname", "seed", "mode", "impl", "docj", "coerced", "features")

    def replay_data(self, extra=None):
        d = {"sdl": self.sdl, "enum_kind": self.enum_kind, "document": self.text, "variables": self.variables,
             "operation_name": self.opname, "seed": self.seed, "mode": self.mode}
        d.update(extra or {})
        return d


_PREPARED = {}


def prepare(schema, text, variables, opname):
    """parse + validate + coerce variables on the real code. Returns (status, ast, coerced)"""
    from py_gql.lang import parse
    from py_gql.validation import validate_ast
    from py_gql.execution.get_operation import get_operation
    from py_gql.utilities import coerce_variable_values
    from py_gql.exc import VariablesCoercionError, InvalidOperationError
    # parse + validate once per (Schema object, text): histories prepare the same text with other variables
    key = (id(schema), text)
    hit = _PREPARED.get(key)
    if hit is not None and hit[0] is schema:
        ast, verdict = hit[1], hit[2]
    else:
        ast = parse(text)
        try:
            v = validate_ast(schema, ast)
            verdict = "invalid" if v.errors else None
        except Exception as e:  # noqa  (C05 reports these)
            verdict = "validate-raises:" + type(e).__name__
        if len(_PREPARED) > 4000:
            _PREPARED.clear()
        _PREPARED[key] = (schema, ast, verdict)
    if verdict is not None:
        return verdict, ast, None
    try:
        op = get_operation(ast, opname)
        coerced = coerce_variable_values(schema, op, variables or {})
    except VariablesCoercionError:
        return "variables-rejected", ast, None
    except InvalidOperationError:
        return "no-operation", ast, {}
    return "ok", ast, coerced


def lean_request(dump, c):
    return {"op": "exec", "schema": dump, "doc": c.docj, "opname": c.opname, "vars": X.canon_value(c.coerced),
            "seed": c.seed, "mode": c.mode}


def shrink(schema, dump, holder, c, still_fails, budget=120):
    """delete selections / definitions while the document stays valid and `still_fails(text)` holds"""
    from py_gql.lang import parse, print_ast
    from py_gql.lang import ast as _ast
    text = c.text
    tries = 0
    progress = True
    while progress and tries < budget:
        progress = False
        doc = parse(text)
        sets = []

        def walk(n):
            ss = getattr(n, "selection_set", None)
            if ss is not None:
                sets.append(ss)
                for s in ss.selections:
                    walk(s)
        for d in doc.definitions:
            walk(d)
        for si in range(len(sets)):
            for k in range(len(sets[si].selections)):
                if len(sets[si].selections) <= 1:
                    break
                doc2 = parse(text)
                sets2 = []

                def walk2(n):
                    ss = getattr(n, "selection_set", None)
                    if ss is not None:
                        sets2.append(ss)
                        for s in ss.selections:
                            walk2(s)
                for d in doc2.definitions:
                    walk2(d)
                if si >= len(sets2) or k >= len(sets2[si].selections):
                    continue
                del sets2[si].selections[k]
                cand = print_ast(doc2)
                tries += 1
                if tries > budget:
                    break
                try:
                    st, _, _ = prepare(schema, cand, c.variables, c.opname)
                    if st == "ok" and still_fails(cand):
                        text = cand
                        progress = True
                        break
                except Exception:  # noqa
                    pass
            if progress or tries > budget:
                break
    return text


def run_one(schema, holder, dump, c):
    """execute case c on the real code; fills c.impl/c.docj/c.coerced; returns status"""
    st, ast, coerced = prepare(schema, c.text, c.variables, c.opname)
    if st not in ("ok", "no-operation"):
        return st
    c.coerced = coerced or {}
    c.docj = X.doc_to_json(ast, schema, c.coerced)
    holder.world = X.World(dump, c.seed, c.mode)
    c.impl = X.run_impl(schema, c.text, c.variables, c.opname)
    return "ok"


def check_against_pyspec(ctx, schema, holder, dump, c):
    spec = X.py_spec_run(dump, c.docj, c.opname, c.coerced, X.World(dump, c.seed, c.mode))
    if X.results_agree(c.impl, spec, dedup_locs=True):
        return True
    how = classify(c.impl, spec)

    def still(text):
        c2 = Case()
        for s in Case.__slots__:
            setattr(c2, s, getattr(c, s, None))
        c2.text = text
        if run_one(schema, holder, dump, c2) != "ok":
            return False
        sp = X.py_spec_run(dump, c2.docj, c2.opname, c2.coerced, X.World(dump, c2.seed, c2.mode))
        return (not X.results_agree(c2.impl, sp, dedup_locs=True)) and classify(c2.impl, sp) == how
    small = shrink(schema, dump, holder, c, still)
    c3 = Case()
    for s in Case.__slots__:
        setattr(c3, s, getattr(c, s, None))
    c3.text = small
    run_one(schema, holder, dump, c3)
    sp3 = X.py_spec_run(dump, c3.docj, c3.opname, c3.coerced, X.World(dump, c3.seed, c3.mode))
    ctx.fail("exec-differs-from-spec:%s:%s" % (how, features_sig(small)),
             "response of the real executor differs from the specification's algorithm (%s)" % how,
             c3.replay_data({"impl": c3.impl, "spec": sp3, "oracle": "python-reference"}), kind="property")
    return False


def run(ctx):
    rng = ctx.rng
    n_schemas = ctx.n(12, 70)
    per_schema = ctx.n(22, 40)
    use_lean = ctx.model_ok and ctx.driver.available()
    lean_cases = []
    built = []
    # deterministic slice first (reads no randomness): the same fixed requests through process_graphql_query (generic
    # Executor) and through py_gql.graphql on an asyncio loop with resolvers completing OUT OF DOCUMENT ORDER
    from corr import C04_runtimes
    C04_runtimes.run(ctx)
    from corr import C04_hunt1
    C04_hunt1.run(ctx)           # named probes (no randomness): exponential fragment expansion, @skip before @include
    leading_node_class(ctx, None, lean_cases if use_lean else None)       # the fixed-schema part of the class, also first
    for si in range(n_schemas):
        if ctx.time_left() < 15:
            ctx.notes.append("stopped early at schema %d (time)" % si)
            break
        desc = gs.gen_schema(rng, size=rng.randint(1, 4), with_directives=False)
        sdl = gs.to_sdl(desc)
        enum_kind = rng.randint(0, 2)
        try:
            schema, holder, dump = X.build(sdl, enum_kind)
        except Exception as e:  # noqa  (schema building belongs to C11)
            ctx.stat("schema-build-failed:" + type(e).__name__)
            continue
        cases = []
        for j in range(per_schema):
            op = go.gen_operation(rng, desc, size=rng.randint(1, 4))
            c = Case()
            c.sdl, c.enum_kind = sdl, enum_kind
            c.text, c.variables, c.opname = op["text"], op["variables"], op["opname"]
            c.seed = rng.randint(0, 10 ** 6)
            c.mode = 1 if rng.random() < 0.12 else 0
            c.features = op["features"]
            c.impl = c.docj = c.coerced = None
            cases.append(c)
        # hand-made corner: wrong operation name / ambiguous operation
        if cases:
            c = Case()
            c.sdl, c.enum_kind = sdl, enum_kind
            c.text, c.variables = "query A { __typename } query B { __typename }", {}
            c.opname = rng.choice([None, "A", "B", "C"])
            c.seed, c.mode, c.features = 1, 0, {"operation-selection"}
            c.impl = c.docj = c.coerced = None
            cases.append(c)
        order = list(range(len(cases)))
        rng.shuffle(order)            # the history: requests hit the same Schema object in random order
        done = []
        for idx in order:
            c = cases[idx]
            try:
                st = run_one(schema, holder, dump, c)
            except Exception as e:  # noqa
                st = "harness-error:" + type(e).__name__
            ctx.stat("status:" + st)
            if st != "ok":
                continue
            ctx.count()
            key = (sdl, c.text, json.dumps(c.variables, sort_keys=True), c.seed, c.mode)
            if nontrivial(c.impl):
                ctx.nontrivial(key)
            for f in c.features:
                ctx.stat("feature:" + f)
            if "data" in c.impl:
                ctx.stat("errors:%d" % min(len(c.impl["errors"]), 3))
                for e in c.impl["errors"]:
                    ctx.stat("error-kind:" + e["kind"])
                    if e["kind"] == "resolver" and (e.get("msg") or "")[:1] in ("R", "T"):
                        # ResolverError raised while the value was being completed (7b8e151)
                        ctx.stat("completion-error:" + ("lazy-iterable" if e["msg"][0] == "R" else "resolve_type"))
                    if e["kind"] == "directive":
                        ctx.stat("directive-error:" + ("root" if not e["path"] else "nested"))
            elif "internal" in c.impl:
                ctx.stat("impl-internal:" + c.impl["internal"])
                if c.mode == 0:
                    ctx.fail("internal-exception-on-validated-operation:" + c.impl["internal"],
                             "a validated operation under a typed world raised %s" % c.impl["internal"],
                             c.replay_data({"impl": c.impl}), kind="property")
            else:
                ctx.stat("impl-abort:" + str(c.impl.get("abort")))
            ctx.stat("mode:%d" % c.mode)
            check_against_pyspec(ctx, schema, holder, dump, c)
            done.append(c)
            if use_lean:
                lean_cases.append((dump, c))
            ctx.sample({"document": c.text[:300], "variables": c.variables, "seed": c.seed, "impl": json.dumps(c.impl)[:300]})
        shared_document_histories(ctx, schema, holder, dump, sdl, enum_kind, done)
        # history independence: re-execute earlier requests after everything else ran on this Schema object
        for c in rng.sample(done, min(4, len(done))):
            holder.world = X.World(dump, c.seed, c.mode)
            again = X.run_impl(schema, c.text, c.variables, c.opname)
            ctx.count()
            if json.dumps(again, sort_keys=False) != json.dumps(c.impl, sort_keys=False):
                ctx.fail("history-dependence:" + classify(again, c.impl),
                         "the same request gives a different response after other requests on the same Schema object",
                         c.replay_data({"first": c.impl, "later": again, "history": [d.text for d in done]}), kind="property")
            # and on a FRESH Schema object
        if done and rng.random() < 0.5:
            c = rng.choice(done)
            schema2, holder2, dump2 = X.build(sdl, enum_kind)
            holder2.world = X.World(dump2, c.seed, c.mode)
            fresh = X.run_impl(schema2, c.text, c.variables, c.opname)
            ctx.count()
            if json.dumps(fresh) != json.dumps(c.impl):
                ctx.fail("history-dependence:fresh-schema:" + classify(fresh, c.impl),
                         "a fresh Schema object answers differently from one that served other requests",
                         c.replay_data({"used": c.impl, "fresh": fresh}), kind="property")
        built.append((schema, holder, dump, sdl, enum_kind, desc))
        if use_lean and len(lean_cases) >= 150:
            flush_lean(ctx, lean_cases)
            lean_cases = []
    leading_node_class(ctx, built, lean_cases if use_lean else None)
    if use_lean and lean_cases:
        flush_lean(ctx, lean_cases)
    if not use_lean:
        ctx.notes.append("Lean driver not available: only the direct oracle (Python reference of the spec) ran")
    run_corpus(ctx)
    disable_introspection_probe(ctx)
    deep_generic_executor(ctx)
    shared_document_fixed(ctx)
    from corr import C04_default
    C04_default.run(ctx)       # plain data + the real default_resolver


def leading_node_class(ctx, built, lean_cases):
    """generated CLASS (gen/leading_node.py): one field node heading two DIFFERENT merged node lists of a response key in one
    request - on a fixed schema (named probe) and on every generated schema of this run, under fixed worlds; compared with
    the specification like every other request. Reads no randomness."""
    todo = []
    if built is None:
        try:
            schema, holder, dump = X.build(LN.FIXED_SDL, 0)
            todo += [(schema, holder, dump, LN.FIXED_SDL, 0, d, LN.FIXED_SEEDS) for d in LN.FIXED_DOCS]
        except Exception as e:  # noqa
            ctx.stat("schema-build-failed:" + type(e).__name__)
    for schema, holder, dump, sdl, enum_kind, desc in built or []:
        todo += [(schema, holder, dump, sdl, enum_kind, d, [0, 1, 2]) for d in LN.leading_node_documents(desc)]
    for schema, holder, dump, sdl, enum_kind, (label, text, vs), seeds in todo:
        if ctx.time_left() < 12:
            ctx.notes.append("leading-node class stopped early (time)")
            return
        ctx.stat("class:" + label)
        for seed in seeds:
            c = Case()
            c.sdl, c.enum_kind, c.text, c.variables, c.opname = sdl, enum_kind, text, vs, None
            c.seed, c.mode, c.features = seed, 0, {label}
            c.impl = c.docj = c.coerced = None
            try:
                st = run_one(schema, holder, dump, c)
            except Exception as e:  # noqa
                st = "harness-error:" + type(e).__name__
            if st != "ok":
                ctx.stat("class:%s:%s" % (label, st))
                break
            ctx.count()
            if nontrivial(c.impl):
                ctx.nontrivial((sdl, c.text, "{}", c.seed, 0))
            if "internal" in c.impl:
                ctx.fail("internal-exception-on-validated-operation:%s:%s" % (c.impl["internal"], label),
                         "a validated operation under a typed world raised %s" % c.impl["internal"],
                         c.replay_data({"impl": c.impl, "label": label}), kind="property")
                break
            spec = X.py_spec_run(dump, c.docj, c.opname, c.coerced, X.World(dump, c.seed, c.mode))
            if not X.results_agree(c.impl, spec, dedup_locs=True):
                ctx.fail("exec-differs-from-spec:%s:%s" % (classify(c.impl, spec), label),
                         "response of the real executor differs from the specification's algorithm (class %s)" % label,
                         c.replay_data({"impl": c.impl, "spec": spec, "oracle": "python-reference", "label": label}), kind="property")
                break
            if lean_cases is not None:
                lean_cases.append((dump, c))


def disable_introspection_probe(ctx):
    """the documented option `disable_introspection=True`: a validated document still gets one value per response key"""
    from py_gql import build_schema, process_graphql_query
    sdl = "type Query { a: Int, pet: Pet }\ntype Pet { name: String }\n"
    schema = build_schema(sdl)
    schema.default_resolver = lambda root, c, info, **a: {"a": 1, "name": "Rex", "pet": {}}.get(info.field_definition.name)
    for meta, text, keys in (("__typename", "{ a t: __typename pet { __typename name } }", ["a", "t", "pet"]),
                             ("__schema", "{ __schema { queryType { name } } a }", ["__schema", "a"]),
                             ("__type", "{ __type(name: \"Query\") { name } a }", ["__type", "a"])):
        try:
            r = process_graphql_query(schema, text, disable_introspection=True)
            got = list(r.data.keys()) if isinstance(r.data, dict) else None
            errs = len(r.errors or [])
        except Exception as e:  # noqa
            got, errs = "raises:" + type(e).__name__, 0
        ctx.count()
        ctx.stat("disable-introspection:%s:%s" % (meta, "all-keys" if got == keys else "keys-missing"))
        if got != keys and not errs:
            ctx.fail("response-key-missing:disable-introspection:%s" % meta,
                     "with disable_introspection=True a validated document loses selected response keys without any error: "
                     "selected %s, data has %s" % (keys, got),
                     {"sdl": sdl, "document": text, "stream": "disable-introspection", "keys": keys, "got": got}, kind="property")


def deep_generic_executor(ctx):
    """a validated operation nested through a `[T!]!` field: the generic Executor (process_graphql_query) must answer
    what BlockingExecutor answers (the parser accepts ~249 levels, validation ~121)"""
    from py_gql import build_schema, graphql_blocking, process_graphql_query
    sdl = "type Query { n: Int, nl: [Query!]! }"
    schema = build_schema(sdl)
    schema.default_resolver = lambda root, c, info, **a: 1 if info.field_definition.name == "n" else [{}]
    for depth in (40, 90):
        text = "{" + "nl{" * depth + "n" + "}" * depth + "}"
        out = {}
        for name, fn in (("blocking", graphql_blocking), ("generic", process_graphql_query)):
            try:
                r = fn(schema, text)
                out[name] = "ok" if not r.errors and r.data is not None else "errors"
            except RecursionError:
                out[name] = "RecursionError"
            except Exception as e:  # noqa
                out[name] = type(e).__name__
        ctx.count()
        ctx.stat("deep-generic-executor:%d:%s" % (depth, out["generic"]))
        if out["generic"] != out["blocking"]:
            ctx.fail("generic-executor-recursion:nonnull-list-depth-%d" % depth,
                     "a validated operation nested %d levels through a `[T!]!` field is answered by BlockingExecutor (%s) but the "
                     "generic Executor ends in %s" % (depth, out["blocking"], out["generic"]),
                     {"sdl": sdl, "document": text[:60] + "...", "depth": depth, "stream": "deep-generic-executor", "outcome": out}, kind="property")


PETS_SDL = ("type Query { pets: [Pet!], pet: Pet }\ninterface Pet { name: String, owner: Owner }\n"
            "type Dog implements Pet { name: String, owner: Owner, bark: Int }\n"
            "type Cat implements Pet { name: String, owner: Owner }\ntype Owner { name: String, phone: String, pets: [Pet!] }\n")
PETS_DOCS = [
    ("query($full: Boolean!) { pets { __typename owner { name } ... on Dog @include(if: $full) { owner { phone } } } }",
     [{"full": True}, {"full": False}, {"full": True}, {"full": False}]),
    ("query($full: Boolean!, $x: Boolean = true) { pet { o: owner { name } o: owner @include(if: $full) { phone pets { name } } } "
     "pets { ...P } } fragment P on Pet { owner { name } ... @skip(if: $full) { owner { phone } } owner @include(if: $x) { name } }",
     [{"full": True}, {"full": False}, {"full": False, "x": False}, {"full": True}]),
]


def run_shared(ctx, schema, holder, dump, sdl, enum_kind, text, opname, var_history, seeds, label):
    """ONE parsed Document object served several times with different variables: every response must be the one
    of a freshly parsed document, and the Document must be left unchanged."""
    from py_gql.lang import parse
    doc_obj = parse(text)
    before = json.dumps(doc_obj.to_dict(), sort_keys=True, default=str)
    ok = True
    for i, (vs, seed) in enumerate(zip(var_history, seeds)):
        try:
            st, ast, coerced = prepare(schema, text, vs, opname)
        except Exception:  # noqa
            return ok
        if st != "ok":
            ctx.stat("shared-document:" + st)
            continue
        docj = X.doc_to_json(ast, schema, coerced)
        holder.world = X.World(dump, seed, 0)
        impl = X.run_impl(schema, doc_obj, vs, opname)
        spec = X.py_spec_run(dump, docj, opname, coerced, X.World(dump, seed, 0))
        ctx.count()
        ctx.stat("shared-document:request")
        detail = {"sdl": sdl, "enum_kind": enum_kind, "document": text, "operation_name": opname, "mode": 0,
                  "variable_history": var_history[:i + 1], "seeds": seeds[:i + 1], "shared_document": True}
        if "internal" in impl or not X.results_agree(impl, spec, dedup_locs=True):
            ctx.fail("history-dependence:shared-document:%s" % (classify(impl, spec) if "internal" not in impl else "internal:" + impl["internal"]),
                     "a parsed Document served before (with other variables) now gives a response that differs from the "
                     "specification's result for this request", dict(detail, impl=impl, spec=spec), kind="property")
            ok = False
            break
    after = json.dumps(doc_obj.to_dict(), sort_keys=True, default=str)
    if after != before:
        ctx.fail("document-mutated-by-execution:%s" % label, "executing a request changed the parsed Document object (to_dict() before != after)",
                 {"sdl": sdl, "enum_kind": enum_kind, "document": text, "operation_name": opname, "mode": 0,
                  "variable_history": var_history, "seeds": seeds, "shared_document": True}, kind="property")
        ok = False
    return ok


def shared_document_histories(ctx, schema, holder, dump, sdl, enum_kind, done):
    rng = ctx.rng
    cands = [c for c in done if any(isinstance(v, bool) for v in (c.variables or {}).values())]
    rng.shuffle(cands)
    for c in (cands[:2] + [d for d in done if d not in cands][:1]):
        hist = [dict(c.variables or {})]
        for _ in range(3):
            v = dict(c.variables or {})
            for k, val in v.items():
                if isinstance(val, bool) and rng.random() < 0.6:
                    v[k] = not val
            hist.append(v)
        run_shared(ctx, schema, holder, dump, sdl, enum_kind, c.text, c.opname, hist, [rng.randint(0, 10 ** 6) for _ in hist], "generated")


def shared_document_fixed(ctx):
    schema, holder, dump = X.build(PETS_SDL, 0)
    for text, hist in PETS_DOCS:
        for base in range(4):
            run_shared(ctx, schema, holder, dump, PETS_SDL, 0, text, None, hist, [base * 10 + i for i in range(len(hist))], "pets")


def flush_lean(ctx, lean_cases):
    answers = ctx.driver.ask([lean_request(d, c) for d, c in lean_cases])
    for (dump, c), a in zip(lean_cases, answers):
        ctx.stat("lean-compared")
        model, spec = a.get("model"), a.get("spec")
        if model is None or spec is None:
            ctx.fail("corr:driver-error", "driver could not answer", c.replay_data({"answer": a}), kind="correspondence")
            continue
        if "internal" in c.impl and "internal" in model and c.impl["internal"] != model["internal"]:
            ctx.fail("corr:model-vs-impl:exception-class:%s-vs-%s" % (c.impl["internal"], model["internal"]),
                     "the real executor and the model fail with different exception classes",
                     c.replay_data({"impl": c.impl, "model": model}), kind="correspondence")
        if not X.results_agree(c.impl, model, dedup_locs=False):
            ctx.fail("corr:model-vs-impl:%s:%s" % (classify(c.impl, model), features_sig(c.text)),
                     "Lean model of the executor and the real executor differ",
                     c.replay_data({"impl": c.impl, "model": model}), kind="correspondence")
        if not X.results_agree(c.impl, spec, dedup_locs=True):
            ctx.fail("exec-differs-from-spec:%s:%s" % (classify(c.impl, spec), features_sig(c.text)),
                     "response of the real executor differs from the Lean specification (Spec/ExecSpec.lean)",
                     c.replay_data({"impl": c.impl, "spec": spec, "oracle": "lean-spec"}), kind="property")
        if a.get("quirk_dup"):
            ctx.stat("seen-fragments-quirk-duplicated-nodes")


def run_corpus(ctx):
    from common import CORPUS
    d = CORPUS / PROPERTY
    if not d.exists():
        return
    for p in sorted(d.glob("*.json")):
        data = json.loads(p.read_text())
        for seed in [data.get("seed", 0)] + data.get("more_seeds", []) + list(range(12)):      # the same request under several worlds
            d2 = dict(data, seed=seed)
            ctx.count()
            if not replay(ctx, {"input": d2}, quiet=True):
                ctx.fail("corpus:" + p.stem, "corpus case fails (response differs from the specification's algorithm)", d2, kind="property")
                break


def replay(ctx, data, quiet=False):
    inp = data.get("input", data)
    if inp.get("part") == "runtimes":
        from corr import C04_runtimes
        return C04_runtimes.replay(ctx, inp)
    if inp.get("part") == "hunt1":
        from corr import C04_hunt1
        return C04_hunt1.replay(ctx, inp)
    if inp.get("stream") == "disable-introspection":
        class _C3:
            def __init__(self):
                self.bad = []
            def fail(self, sig, *a, **k):
                self.bad.append(sig)
            def count(self, k=1):
                pass
            def stat(self, n, k=1):
                pass
        c3 = _C3()
        disable_introspection_probe(c3)
        if c3.bad:
            print("fails:", c3.bad)
        return not c3.bad
    if inp.get("stream") == "deep-generic-executor":
        class _C2:
            def __init__(self):
                self.bad = []
            def fail(self, sig, *a, **k):
                self.bad.append(sig)
            def count(self, k=1):
                pass
            def stat(self, n, k=1):
                pass
        c2 = _C2()
        deep_generic_executor(c2)
        if c2.bad:
            print("fails:", c2.bad)
        return not c2.bad
    if inp.get("stream") == "default-resolver-negative":
        from corr import C04_default
        from py_gql import build_schema
        schema = build_schema(C04_default.SDL)
        ok = True
        for label, text, root in C04_default.NOT_ITERATED:
            impl = C04_default.run_impl_default(schema, text, root)
            if impl.get("internal") != "RuntimeError":
                print(label, "->", json.dumps(impl)[:300])
                ok = False
        return ok
    if "root" in inp:
        from corr import C04_default
        return C04_default.replay(ctx, inp)
    if inp.get("shared_document"):
        class _C:  # minimal ctx: collect failures
            def __init__(self):
                self.bad = []
                self.rng = ctx.rng
            def fail(self, sig, what, detail, kind="property"):
                self.bad.append(sig)
            def count(self, k=1):
                pass
            def stat(self, n, k=1):
                pass
        c2 = _C()
        schema, holder, dump = X.build(inp["sdl"], inp.get("enum_kind", 0))
        ok = run_shared(c2, schema, holder, dump, inp["sdl"], inp.get("enum_kind", 0), inp["document"], inp.get("operation_name"),
                        inp["variable_history"], inp["seeds"], "replay")
        if c2.bad:
            print("fails:", c2.bad)
        return ok and not c2.bad
    schema, holder, dump = X.build(inp["sdl"], inp.get("enum_kind", 0))
    c = Case()
    c.sdl, c.enum_kind = inp["sdl"], inp.get("enum_kind", 0)
    c.text, c.variables, c.opname = inp["document"], inp.get("variables") or {}, inp.get("operation_name")
    c.seed, c.mode = inp.get("seed", 0), inp.get("mode", 0)
    c.features = set()
    c.impl = c.docj = c.coerced = None
    history = inp.get("history") or []
    for h in history:
        holder.world = X.World(dump, c.seed, c.mode)
        X.run_impl(schema, h, {}, None)
    st = run_one(schema, holder, dump, c)
    if st != "ok":
        print("not executed:", st)
        return True
    spec = X.py_spec_run(dump, c.docj, c.opname, c.coerced, X.World(dump, c.seed, c.mode))
    ok = X.results_agree(c.impl, spec, dedup_locs=True)
    if "internal" in c.impl and c.mode == 0:
        ok = False
    if history:
        schema2, holder2, dump2 = X.build(inp["sdl"], inp.get("enum_kind", 0))
        holder2.world = X.World(dump2, c.seed, c.mode)
        ok = ok and json.dumps(X.run_impl(schema2, c.text, c.variables, c.opname)) == json.dumps(c.impl)
    if not ok and not quiet:
        print("impl:", json.dumps(c.impl)[:1500])
        print("spec:", json.dumps(spec)[:1500])
    return ok

# -*- coding: utf-8 -*-
"""
C12 — schema -> SDL -> schema is the identity; serialising is a pure function of schema and options.

Direct oracles on the real code, for SDL-built and code-built schemas and every option combination:
  * `to_string` does not raise and the parser accepts the text,
  * `dump(build(to_string(s))) == dump(s)` (enum internal values externalised, descriptions dropped
    when they are not printed),
  * `to_string(build(to_string(s))) == to_string(s)` (fixpoint),
  * HISTORIES: after resetting the printer module's state to its import-time value, a random sequence of
    `to_string` calls (several schemas, varying options); every output must equal the output of the same
    call made first in a fresh state.
Correspondence: `SdlPrint.lean: printSchema` (pure, state threaded explicitly) must produce the same text.
"""
import ast as pyast
import copy
import itertools
import json

from canon_schema import canon_value, dump_schema, ty_of


def canon(d):
    """Canonical text of a dump that keeps CODE POINTS apart: with ensure_ascii an astral character and the two lone
    surrogates its escape is (wrongly) decoded into would both be written as the same \\ud83d\\ude00."""
    return json.dumps(d, sort_keys=True, ensure_ascii=False)

from common import REPO
from gen import schema as gs
from gen import sdl

PROPERTY = "C12"
RULE = ("schemas: generated declared contents, built from SDL (split over extend blocks, custom directive applications) and "
        "built in code (enum internal values, Python default values of every input kind, optionally omitting defaulted input "
        "fields); options: all 16 combinations of indent in {4, 2, '\\t'} x descriptions x introspection x custom directives; "
        "histories: random call sequences of length 2..6 over 1..3 schemas after a state reset. non-trivial = distinct (schema text, "
        "options) printed with >=2 definitions")
ASSUMPTIONS = [
    "descriptions are limited to texts the block-string form preserves: non-empty, no leading/trailing blank line, no trailing "
    "backslash, no line longer than the wrap width (the property allows the last; the others are recorded as finding H5 in the corpus)",
    "round trip compares schemas by name with enum internal values externalised (a printed schema cannot carry Python values)",
    "a fresh printer state is obtained by re-executing the module-level assignment of _SPECIFIED_DIRECTIVE_NAMES from the source",
]
TRUSTED = ["str(float)/repr(float) computed in Python; code-built schemas are constructed by the harness from the declared content"]

PRINTER = REPO / "src/py_gql/sdl/ast_schema_printer.py"

OPTS = [dict(indent=i, include_descriptions=d, include_introspection=n, include_custom_schema_directives=c)
        for i in (4, 2, "\t") for d in (True, False) for n in (False, True) for c in (False, True)]


# ---------------------------------------------------------------------------
# printer state
# ---------------------------------------------------------------------------

_STATE_SRC = None


def state_statement():
    """Source of the module-level statement that initialises `_SPECIFIED_DIRECTIVE_NAMES`."""
    global _STATE_SRC
    if _STATE_SRC is None:
        src = PRINTER.read_text()
        tree = pyast.parse(src)
        for n in tree.body:
            if isinstance(n, pyast.Assign) and any(getattr(t, "id", None) == "_SPECIFIED_DIRECTIVE_NAMES" for t in n.targets):
                _STATE_SRC = pyast.get_source_segment(src, n)
                break
        else:
            raise RuntimeError("_SPECIFIED_DIRECTIVE_NAMES is no longer a module-level assignment")
    return _STATE_SRC


def state_kind():
    """'generator' (single-use iterator: finding H1) or 'collection'."""
    src = state_statement()
    v = pyast.parse(src).body[0].value
    return "generator" if isinstance(v, pyast.GeneratorExp) else "collection"


def reset_state():
    """What a fresh process would have: re-run the module-level assignment in the module's namespace."""
    import py_gql.sdl.ast_schema_printer as m
    exec(compile(state_statement(), str(PRINTER), "exec"), m.__dict__)


# ---------------------------------------------------------------------------
# schemas
# ---------------------------------------------------------------------------

STABLE_DESCS = [d for d in sdl.DESCS]


def py_value(c, ty, D, internal):
    """canonical coerced value -> Python value for a code-built schema (enum names -> internal values)."""
    if c is None:
        return None
    if ty[0] == "nonNull":
        return py_value(c, ty[1], D, internal)
    if ty[0] == "list":
        return [py_value(x, ty[1], D, internal) for x in c]
    if isinstance(c, dict) and "$float" in c:
        return float(c["$float"])
    td = gs.desc_type(D, ty[1])
    if td is not None and td["kind"] == "enum":
        return internal[td["name"]][c]
    if td is not None and td["kind"] == "input":
        return {f["name"]: py_value(c[f["name"]], f["type"], D, internal) for f in td["fields"] if f["name"] in c}
    return c


def tuplify(rng, v, p=0.5):
    """Sequence flavours of a code-built default: lists become tuples at random depths (tuple, nested tuple, list of
    tuples, tuple inside a dict). They must print — and be dumped — like the equivalent list."""
    if isinstance(v, (list, tuple)):
        items = [tuplify(rng, x, p) for x in v]
        return tuple(items) if rng.random() < p else items
    if isinstance(v, dict):
        return {k: tuplify(rng, x, p) for k, x in v.items()}
    return v


def code_build(rng, D, p_omit=0.0):
    """Build `D` with the library's constructors. Returns (schema, omitted) where `omitted` tells whether some
    input-object default leaves out a field that has a default (finding H2)."""
    from py_gql import schema as S
    internal = {t["name"]: {v["name"]: (i + 1 if rng.random() < 0.8 else v["name"]) for i, v in enumerate(t["values"])}
                for t in D["types"] if t["kind"] == "enum"}
    reg = {s.name: s for s in S.SPECIFIED_SCALAR_TYPES}
    omitted = [False]

    def ty(t):
        if t[0] == "named":
            return reg[t[1]]
        return (S.ListType if t[0] == "list" else S.NonNullType)(ty(t[1]))

    def lazy_ty(t):
        return lambda: ty(t)

    def default_kw(a):
        if a.get("default") is None:
            return {}
        c = sdl.ref_coerce(sdl._lit(a["default"]), a["type"], D)
        v = py_value(c, a["type"], D, internal)
        if p_omit and rng.random() < p_omit:
            v = omit(v, a["type"])
        return {"default_value": tuplify(rng, v)}

    def omit(v, t):
        """Drop keys of defaulted input fields from dict defaults (what a user writing Python would do)."""
        if v is None:
            return v
        if t[0] == "nonNull":
            return omit(v, t[1])
        if t[0] == "list":
            return [omit(x, t[1]) for x in v]
        td = gs.desc_type(D, t[1])
        if td is not None and td["kind"] == "input" and isinstance(v, dict):
            out = {}
            for f in td["fields"]:
                if f["name"] in v:
                    if f.get("default") is not None and rng.random() < 0.6:
                        omitted[0] = True
                        continue
                    out[f["name"]] = omit(v[f["name"]], f["type"])
            return out
        return v

    def args(lst, cls):
        return [cls(a["name"], lazy_ty(a["type"]), description=a.get("desc"), **default_kw(a)) for a in lst or []]

    def fields(t):
        return lambda: [S.Field(f["name"], lazy_ty(f["type"]), args=args(f.get("args"), S.Argument), description=f.get("desc"),
                                deprecation_reason=f.get("deprecated")) for f in t["fields"]]

    for t in D["types"]:
        k, n, d = t["kind"], t["name"], t.get("desc")
        if k == "scalar":
            reg[n] = S.ScalarType(n, serialize=lambda x: x, parse=lambda x: x, parse_literal=lambda node, _v=None: node.value, description=d)
        elif k == "enum":
            reg[n] = S.EnumType(n, [S.EnumValue(v["name"], internal[n][v["name"]], deprecation_reason=v.get("deprecated"),
                                                description=v.get("desc")) for v in t["values"]], description=d)
        elif k == "input":
            reg[n] = S.InputObjectType(n, (lambda t=t: args(t["fields"], S.InputField)), description=d)
        elif k == "interface":
            reg[n] = S.InterfaceType(n, fields(t), description=d)
        elif k == "object":
            reg[n] = S.ObjectType(n, fields(t), interfaces=(lambda t=t: [reg[i] for i in t.get("interfaces") or []]), description=d)
        elif k == "union":
            reg[n] = S.UnionType(n, (lambda t=t: [reg[m] for m in t["members"]]), description=d)
    dirs = [S.Directive(d["name"], d["locations"], args=args(d.get("args"), S.Argument), description=d.get("desc")) for d in D["directives"]]
    schema = S.Schema(query_type=reg.get(D["query"]), mutation_type=reg.get(D.get("mutation")) if D.get("mutation") else None,
                      subscription_type=reg.get(D.get("subscription")) if D.get("subscription") else None,
                      types=[reg[t["name"]] for t in D["types"]], directives=dirs)
    schema.validate()
    return schema, omitted[0]


def externalise(schema, with_desc=True):
    """Dump with enum internal values replaced by value names (type-directed), optionally without descriptions."""
    from py_gql.schema import EnumType, InputObjectType, ListType, NonNullType
    d = dump_schema(schema, sort=True)

    def ext(v, t):
        if v is None:
            return None
        if isinstance(t, NonNullType):
            return ext(v, t.type)
        if isinstance(t, ListType):
            return [ext(x, t.type) for x in v] if isinstance(v, (list, tuple)) else [ext(v, t.type)]
        if isinstance(t, EnumType):
            return t.get_name(v)
        if isinstance(t, InputObjectType) and isinstance(v, dict):
            return {f.name: ext(v[f.name], f.type) for f in t.fields if f.name in v}
        return canon_value(v)

    def fix_args(dumped, live):
        for da, la in zip(dumped, live):
            if la.has_default_value:
                da["default_value"] = ext(la.default_value, la.type)
            if not with_desc:
                da["desc"] = None

    for td in d["types"]:
        lt = schema.types[td["name"]]
        if not with_desc:
            td["desc"] = None
        for v in td["values"]:
            v["value"] = v["name"]
            if not with_desc:
                v["desc"] = None
        if td["kind"] in ("object", "interface"):
            for fd, lf in zip(td["fields"], lt.fields):
                fix_args(fd["args"], lf.arguments)
                if not with_desc:
                    fd["desc"] = None
        if td["kind"] == "input":
            fix_args(td["input_fields"], lt.fields)
    for dd in d["directives"]:
        fix_args(dd["args"], schema.directives[dd["name"]].arguments)
        if not with_desc:
            dd["desc"] = None
    return d


def call(schema, opts):
    try:
        return ("ok", schema.to_string(**opts))
    except RecursionError:
        return ("exc", "internal:RecursionError")
    except Exception as e:  # noqa
        return ("exc", "internal:" + type(e).__name__)


def ckey(o):
    """class of the `include_custom_schema_directives` value: 0 / 1 / whitelist"""
    c = o["include_custom_schema_directives"]
    return "whitelist" if isinstance(c, (list, tuple)) else "%d" % bool(c)


def opts_key(o):
    return "indent=%r,desc=%d,intro=%d,custom=%s" % (o["indent"], o["include_descriptions"], o["include_introspection"], ckey(o))


def has_apps(text):
    return "@" in text


# ---------------------------------------------------------------------------

def check_schema(ctx, schema, origin, src, opts_list, h2=False):
    """Round-trip oracles for one schema under the given option sets. `src` = how to rebuild it in a replay."""
    from py_gql import build_schema
    from py_gql.lang import parse
    for opts in opts_list:
        ctx.count()
        reset_state()
        r = call(schema, opts)
        detail = {"origin": origin, "source": src, "opts": opts}
        ok_key = opts_key(opts)
        ctx.stat("opts:" + ok_key)
        if r[0] != "ok":
            ctx.fail("print-raises:%s:%s" % (r[1], origin), "to_string raises " + r[1], detail)
            continue
        t1 = r[1]
        if t1.count("\n\n") >= 1:
            ctx.nontrivial((t1, ok_key))
        # repeated call, same state history
        r2 = call(schema, opts)
        if r2 != r:
            ctx.fail("second-call-differs:custom=%s" % ckey(opts),
                     "the second to_string call with the same options returns a different text", dict(detail, first=t1, second=r2[1]))
        # the parser accepts the text
        try:
            parse(t1, allow_type_system=True)
        except Exception as e:  # noqa
            ctx.fail("unparsable-output:%s:%s" % (type(e).__name__, origin), "the parser rejects the printed schema", dict(detail, text=t1))
            continue
        if opts["include_introspection"]:
            # the text redefines specified directives / introspection types (finding C12/1)
            try:
                build_schema(t1)
            except Exception as e:  # noqa
                ctx.fail("C12-1:introspection-output-not-rebuildable:" + type(e).__name__,
                         "to_string(include_introspection=True) is not accepted by build_schema", dict(detail, text=t1[:400]))
            continue
        try:
            s2 = build_schema(t1)
        except RecursionError:
            ctx.fail("rebuild-raises:RecursionError:" + origin, "build_schema(to_string(s)) raises RecursionError", dict(detail, text=t1))
            continue
        except Exception as e:  # noqa
            ctx.fail("rebuild-raises:%s:%s" % (type(e).__name__, origin), "build_schema(to_string(s)) raises", dict(detail, text=t1))
            continue
        wd = bool(opts["include_descriptions"])
        a, b = externalise(schema, wd), externalise(s2, wd)
        if origin == "shared-noncanon":
            reset_state()
            if canon(a) != canon(b) or call(s2, opts) != r:
                ctx.fail("C12-7:non-canonical-code-default:list", "a bare item given as the default of a list type is printed verbatim and read back as a list",
                         dict(detail, text=t1))
            continue
        if origin == "shared" and canon(a) != canon(b):
            # Python NUMBERS of a pass-through scalar are read back as their source text (1 -> "1"): finding C12/6
            from corr.C11 import diff_path
            ctx.fail("C12-6:custom-scalar-number-becomes-string:" + ("default" if "default_value" in diff_path(a, b) else "other"),
                     "a numeric default of a custom scalar is printed as a number literal and read back as a string", dict(detail, text=t1))
            a = b
        if canon(a) != canon(b):
            from corr.C11 import diff_path
            p = diff_path(a, b)
            if h2 and "default_value" in p:
                ctx.fail("H2:code-default-omits-defaulted-field", "a code-built input-object default that omits a defaulted field is rebuilt with the field filled in",
                         dict(detail, text=t1))
            else:
                ctx.fail("roundtrip-differs:%s:%s" % (origin, p), "build(to_string(s)) differs from s at " + p, dict(detail, text=t1))
            continue
        reset_state()
        r3 = call(s2, opts)
        if r3 != r:
            if h2:
                ctx.fail("H2:code-default-omits-defaulted-field", "text is a fixpoint only from the second round", dict(detail, text=t1))
            else:
                ctx.fail("not-a-fixpoint:%s:custom=%s" % (origin, ckey(opts)),
                         "to_string(build(to_string(s))) differs from to_string(s)", dict(detail, first=t1, second=r3[1]))


def gen_case(ctx, size=None):
    """(origin, source description, live schema, h2 flag)."""
    from py_gql import build_schema
    rng = ctx.rng
    size = size or rng.choice([1, 1, 2, 2, 3])
    D = sdl.gen_content(rng, size)
    if rng.random() < 0.5:
        items = sdl.permute(rng, sdl.items_of(rng, D, p_ext=rng.choice([0.0, 0.5])))
        text = sdl.render(items)
        return "sdl", {"sdl": text}, build_schema(text), False
    p_omit = rng.choice([0.0, 0.0, 0.0, 0.5])
    seed = rng.randrange(1 << 30)
    import random
    s, omitted = code_build(random.Random(seed), D, p_omit)
    return "code", {"content": D, "seed": seed, "p_omit": p_omit}, s, omitted


ANY_POOL = [True, 1, 1.0, 0, False, 0.0, "1", "0", "x", None, 2, -1.5, "true", 1.5,
            # strings of a pass-through scalar that look numeric (finding H3, fixed in /repo 889f979): written as a number
            # only when the number denotes the very same text
            "42.42", "1e+20", "007", "1e3", "1.50", "nan", " 7 ", "0.1", "-0.0", "1.5e-07", "inf", "1e-05", "100.0", "1.0e+16",
            # structured values of a JSON-like scalar (fix I7): dicts (keys inserted in sorted order: the wire format sorts
            # them) and lists / tuples
            {"a": 1, "b": [True, "x", None], "c": {}}, [1, "two"], (1.5, "x"), {}, {"k": {"n": [0]}}]


def shared_build(seed, count, noncanon=False):
    """`count` code-built schemas SHARING one pass-through custom scalar object (`Any`, JSON-style) and one input
    type, with equal-but-differently-typed Python defaults (True / 1 / 1.0, False / 0 / 0.0, "1") spread over them."""
    import random
    from py_gql import schema as S
    rng = random.Random(seed)
    Any = S.ScalarType("Any", serialize=lambda x: x, parse=lambda x: x, parse_literal=lambda node, _v=None: node.value,
                       description="anything")

    def anyty():
        return rng.choice([Any, Any, S.ListType(Any), S.NonNullType(Any)])

    def dflt(t):
        v = rng.choice(ANY_POOL)
        if isinstance(t, S.NonNullType) and v is None:
            v = 1
        if isinstance(t, S.ListType):
            if noncanon and v is not None and not isinstance(v, (list, tuple, dict)) and rng.random() < 0.6:
                return v      # a bare item for a list type (finding C12/7)
            return v if v is None else tuplify(rng, [x for x in rng.sample(ANY_POOL, rng.randint(0, 3))])
        return v

    def args(prefix, n):
        out = []
        for i in range(n):
            t = anyty()
            out.append(S.Argument("%s%d" % (prefix, i), t, default_value=dflt(t)) if rng.random() < 0.85 else S.Argument("%s%d" % (prefix, i), t))
        return out
    shared_in = S.InputObjectType("Opts", [S.InputField("o%d" % i, Any, default_value=rng.choice(ANY_POOL[:9])) for i in range(rng.randint(1, 3))])
    schemas = []
    for j in range(count):
        fields = [S.Field("f%d" % i, rng.choice([S.Int, Any, S.String]), args=args("a", rng.randint(1, 3))) for i in range(rng.randint(1, 3))]
        if rng.random() < 0.5:
            fields.append(S.Field("opts", S.Int, args=[S.Argument("o", shared_in)]))
        dirs = [S.Directive("d%d" % j, ["FIELD"], args=args("x", rng.randint(1, 2)))] if rng.random() < 0.4 else []
        sch = S.Schema(query_type=S.ObjectType("Query", fields), directives=dirs)
        sch.validate()
        schemas.append(sch)
    return schemas


def gen_directive_case(ctx):
    """An SDL-built schema with custom directives APPLIED on members of all kinds (fields, arguments, input fields,
    enum values) and on types / the schema block; returns (case, names of its custom directives)."""
    from py_gql import build_schema
    rng = ctx.rng
    for _ in range(20):
        D = sdl.gen_content(rng, rng.choice([1, 2]))
        if D["directives"]:
            break
    else:
        D["directives"].append({"name": "dir0", "locations": ["FIELD_DEFINITION"], "args": [], "desc": None})
    items = sdl.permute(rng, sdl.items_of(rng, D, p_ext=rng.choice([0.0, 0.4]), p_dirs=0.55))
    text = sdl.render(items)
    names = [d["name"] for d in D["directives"]]
    return ("sdl-directives", {"sdl": text}, build_schema(text), False), names


def _app_site(schema, path):
    from py_gql.schema import EnumType, InputObjectType
    if path == "":
        return "schema"
    if path.startswith("@"):
        return "directive-argument"
    parts = path.split(".")
    if len(parts) == 1:
        return "type"
    if len(parts) == 3:
        return "argument"
    t = schema.types.get(parts[0])
    return "enum-value" if isinstance(t, EnumType) else ("input-field" if isinstance(t, InputObjectType) else "field")


def custom_values(rng, names):
    """values of `include_custom_schema_directives`: booleans and whitelists over the schema's directive names"""
    pool = [True, True, False, []] + [[n] for n in names] + [list(names), ["nope"], ["deprecated"] + names[:1]]
    return rng.choice(pool)


def rebuild_cases(sources):
    """Live schemas of a list of sources (members of one shared family share their type objects)."""
    fam = {}
    out = []
    for src in sources:
        if "shared" in src:
            key = (src["shared"]["seed"], src["shared"]["count"], bool(src["shared"].get("noncanon")))
            if key not in fam:
                fam[key] = shared_build(*key)
            out.append(fam[key][src["index"]])
        else:
            out.append(rebuild_case(src)[0])
    return out


def rebuild_case(src):
    from py_gql import build_schema
    import random
    if "sdl" in src:
        return build_schema(src["sdl"]), False
    if "shared" in src:
        return shared_build(src["shared"]["seed"], src["shared"]["count"], bool(src["shared"].get("noncanon")))[src["index"]], False
    return code_build(random.Random(src["seed"]), src["content"], src["p_omit"])


def gen_shared(ctx, noncanon=False):
    seed, count = ctx.rng.randrange(1 << 30), ctx.rng.randint(1, 3)
    return [("shared-noncanon" if noncanon else "shared", {"shared": {"seed": seed, "count": count, "noncanon": noncanon}, "index": j}, s, False)
            for j, s in enumerate(shared_build(seed, count, noncanon))]


def run_roundtrip(ctx):
    n = ctx.n(220, 2200)
    for k in range(n):
        if ctx.time_left() < 25:
            ctx.notes.append("round-trip cases cut short at %d" % k)
            break
        try:
            if k % 5 == 4:
                origin, src, schema, h2 = ctx.rng.choice(gen_shared(ctx, noncanon=(k % 25 == 24)))
            else:
                origin, src, schema, h2 = gen_case(ctx)
        except Exception as e:  # noqa  (C11's business; never let it escape)
            ctx.stat("generator-build-failed:" + type(e).__name__)
            continue
        ctx.stat("origin:" + origin)
        opts_list = OPTS if k % 6 == 0 else [ctx.rng.choice(OPTS) for _ in range(3)] + [OPTS[0]]
        check_schema(ctx, schema, origin, src, opts_list, h2)
        if k < 2:
            ctx.sample({"origin": origin, "text": call(schema, OPTS[0])[1][:1200]})


def run_histories(ctx, cases_out):
    n = ctx.n(250, 2500)
    for k in range(n):
        if ctx.time_left() < 15:
            ctx.notes.append("histories cut short at %d" % k)
            break
        schemas = []
        hist = None
        if k % 3 == 1:
            # ONE schema object, printed several times with different `include_custom_schema_directives` values
            try:
                case, names = gen_directive_case(ctx)
            except Exception as e:  # noqa
                ctx.stat("generator-build-failed:" + type(e).__name__)
                continue
            schemas = [case]
            ctx.stat("history-family:directive-options")
            hist = [(0, dict(ctx.rng.choice(OPTS), include_introspection=False, include_custom_schema_directives=custom_values(ctx.rng, names)))
                    for _ in range(ctx.rng.randint(2, 5))]
            for _, o in hist:
                ctx.stat("history-custom:" + ckey(o))
            for path, apps in apps_of(case[2]):
                ctx.stat("applications-on:" + _app_site(case[2], path))
        elif k % 3 == 2:
            schemas = gen_shared(ctx)
            ctx.stat("history-family:shared-scalar")
            if ctx.rng.random() < 0.5:
                try:
                    schemas.append(gen_case(ctx, size=1))
                except Exception as e:  # noqa
                    ctx.stat("generator-build-failed:" + type(e).__name__)
        else:
            for _ in range(ctx.rng.randint(1, 3)):
                try:
                    schemas.append(gen_case(ctx, size=ctx.rng.choice([1, 2])))
                except Exception as e:  # noqa
                    ctx.stat("generator-build-failed:" + type(e).__name__)
        if not schemas:
            continue
        if hist is None:
            hist = [(ctx.rng.randrange(len(schemas)), ctx.rng.choice(OPTS)) for _ in range(ctx.rng.randint(2, 6))]
        fresh, outs = run_history(ctx, schemas, hist)
        ctx.count(len(hist))
        ctx.stat("history-length:%d" % len(hist))
        cases_out.append((schemas, hist, outs))
        for j, (f, g) in enumerate(zip(fresh, outs)):
            if f != g:
                prev_custom = any(o["include_custom_schema_directives"] for _, o in hist[:j])
                fam = "shared-scalar:" if any("shared" in s[1] for s in schemas) else ""
                if any(s[0] == "sdl-directives" for s in schemas):
                    fam = "directive-options:"
                ctx.fail("history-dependent:%safter-custom-call=%d:custom=%s" % (fam, prev_custom, ckey(hist[j][1])),
                         "call #%d of a history returns a text different from the same call in a fresh state" % (j + 1),
                         {"schemas": [s[1] for s in schemas], "history": [[i, o] for i, o in hist], "index": j,
                          "fresh": f[1], "in_history": g[1]})
                break


def run_history(ctx, schemas, hist):
    """(what each call returns as the FIRST call of a fresh process, what the calls return made in order in ONE
    fresh process). Real processes (fork of a pristine helper) when available; otherwise this process with the
    printer module's state re-initialised."""
    from corr.C12_fresh import Zygote
    z = Zygote.get()
    srcs = [s[1] for s in schemas]
    if z is not None:
        try:
            fresh = [z.history(srcs, [(i, o)])[0] for i, o in hist]
            outs = z.history(srcs, hist)
            ctx.stat("history-reference:fresh-process")
            return fresh, outs
        except RuntimeError as e:
            ctx.notes.append("fresh-process helper unavailable: %s" % e)
    ctx.stat("history-reference:in-process-reset")
    fresh = []
    for i, o in hist:
        reset_state()
        fresh.append(call(schemas[i][2], o))
    reset_state()
    return fresh, [call(schemas[i][2], o) for i, o in hist]


def run_long_descriptions(ctx):
    """Description lines LONGER than the printer's wrap width (120 - indent), with and without break opportunities.
    The property allows lines the printer re-wraps to change; the class is measured every run: a re-wrapped description is
    finding H12 (own signature), a long line WITHOUT a break opportunity must survive."""
    from py_gql import build_schema
    from py_gql import schema as S
    rng = ctx.rng
    wrap_cases = []
    # named probes (drawn in every run, before any random choice): the two witnesses of Props/C12_wrap.lean and one line per
    # boundary character
    probes = [("probe-longLine", "w" * 60 + " " + "v" * 60), ("probe-h12-replay", "short\n" + "y" * 125 + " z"),
              ("probe-hyphen", "h" * 70 + "-" + "i" * 70), ("probe-underscore", "u" * 70 + "_" + "v" * 70 + " tail"),
              ("probe-two-long", ("a" * 50 + " ") * 3 + "b\nsecond " + "c" * 118 + " d"), ("probe-no-break", "x" * 125)]
    for k in range(len(probes) * 3 + ctx.n(24, 120)):
        n = rng.randint(121, 150) if k >= len(probes) * 3 else 0
        shape = rng.choice(["no-break", "spaces", "hyphens", "underscores", "second-line", "mixed"]) if k >= len(probes) * 3 else probes[k // 3][0]
        if k < len(probes) * 3:
            desc = probes[k // 3][1]
        elif shape == "no-break":
            desc = "x" * n
        elif shape == "spaces":
            desc = " ".join("w" * rng.randint(5, 70) for _ in range(4))
        elif shape == "hyphens":
            desc = "-".join("h" * rng.randint(20, 60) for _ in range(4))
        elif shape == "underscores":
            desc = "_".join("u" * rng.randint(20, 60) for _ in range(4))
        elif shape == "second-line":
            desc = "short first line\n" + "y" * rng.randint(100, 125) + " " + "z" * rng.randint(1, 30)
        else:
            desc = ("w" * 119 + " ") * 2 + "end"
        if max(len(l) for l in desc.split("\n")) <= 116:
            continue
        where = rng.choice(["type", "field", "argument"]) if k >= len(probes) * 3 else ["type", "field", "argument"][k % 3]
        arg = S.Argument("a", S.Int, description=desc if where == "argument" else None)
        fld = S.Field("f", S.Int, args=[arg], description=desc if where == "field" else None)
        schema = S.Schema(S.ObjectType("Query", [fld], description=desc if where == "type" else None))
        ctx.count()
        ctx.stat("long-description:%s:%s" % (shape, where))
        detail = {"description": desc, "where": where, "long_description": True}
        try:
            t1 = schema.to_string()
            s2 = build_schema(t1)
            q = s2.types["Query"]
            got = {"type": q.description, "field": q.fields[0].description, "argument": q.fields[0].arguments[0].description}[where]
            t2 = s2.to_string()
        except Exception as e:  # noqa
            ctx.fail("long-description:%s:%s" % (type(e).__name__, shape), "a long description line breaks to_string / build_schema", detail)
            continue
        ctx.nontrivial(t1)
        wrap_cases.append((shape, where, desc, got, t1 == t2))
        if got != desc or t1 != t2:
            if shape in ("no-break", "probe-no-break"):
                ctx.fail("roundtrip-differs:long-line-without-break", "a long description line without a break opportunity is changed", detail)
            else:
                ctx.fail("H12:description-rewrapped:%s" % ("not-a-fixpoint" if t1 != t2 else "changed"),
                         "a description line longer than the wrap width is broken at a word boundary: the rebuilt description differs", detail)


    run_wrap_model(ctx, wrap_cases)


def run_wrap_model(ctx, cases):
    """`wrapped_description_lexes` (Props/C12_wrap.lean) against the real code: for a description inside `descWrapOK`, the
    description READ BACK from the printed text is the wrapped lines joined by line feeds (the model's `wrappedOf`), and the
    lexer model reads the model's text as one block string with that value."""
    if not cases or not ctx.model_ok or not ctx.driver.available():
        return
    depth = {"type": 0, "field": 1, "argument": 2}
    answers = ctx.driver.ask([{"op": "wrapDesc", "d": d, "depth": depth[w], "indent": "    ", "first": True} for _, w, d, _, _ in cases])
    for (shape, where, desc, got, fixpoint), a in zip(cases, answers):
        ctx.count()
        if "ok" not in a:
            ctx.fail("corr:wrap:no-answer", "model gives no answer", {"answer": a}, kind="correspondence")
            continue
        ctx.stat("wrap-model:%s" % ("inside-descWrapOK" if a["ok"] else "outside"))
        if a["okNarrow"]:
            ctx.stat("wrap-model:inside-descTextOK")
        if not a["ok"]:
            continue
        value = "".join(chr(c) for c in a["value"])
        detail = {"description": desc, "where": where, "model_value": value, "real_value": got, "part": "wrap"}
        if a["lexed"] is None or "".join(chr(c) for c in a["lexed"]) != value:
            ctx.fail("corr:wrap:theorem-evaluates-false", "the lexer model does not read the model's text as one block string of the wrapped lines",
                     detail, kind="correspondence")
        elif got != value:
            ctx.fail("corr:wrap:value:%s" % shape, "the description read back from the printed text is not the wrapped lines of the model",
                     detail, kind="correspondence")
        elif a.get("fits") and not fixpoint:
            # rewrapped_description_fixpoint: wrapped lines that fit the width are printed the same way again
            ctx.fail("corr:wrap:fixpoint:%s" % shape, "the wrapped lines fit the width, but printing the rebuilt schema gives another text",
                     detail, kind="correspondence")
        else:
            ctx.nontrivial("wrap|" + where + "|" + desc)
            if a["lines"] > len(desc.split("\n")):
                ctx.stat("wrap-model:rewrapped-and-agrees")
            ctx.stat("wrap-model:%s" % ("fits:text-fixpoint" if a.get("fits") else "too-wide:%s" % ("fixpoint" if fixpoint else "not-a-fixpoint")))


def run_corpus(ctx):
    from common import CORPUS
    from py_gql import build_schema
    d = CORPUS / "C12"
    if not d.exists():
        return
    for f in sorted(d.glob("*.json")):
        for case in json.loads(f.read_text())["cases"]:
            ctx.stat("corpus")
            try:
                s = build_schema(case["sdl"])
            except Exception as e:  # noqa
                ctx.stat("corpus-build-failed:" + type(e).__name__)
                continue
            check_schema(ctx, s, case["id"], {"sdl": case["sdl"]}, [OPTS[0], dict(OPTS[0], include_custom_schema_directives=True),
                                                                     dict(OPTS[0], include_custom_schema_directives=["public"])])


# ---------------------------------------------------------------------------
# model correspondence
# ---------------------------------------------------------------------------

def apps_of(schema):
    """Directive applications carried by the AST nodes attached to the schema's elements: [[path, [app...]]]."""
    from py_gql.schema import (EnumType, InputObjectType, InterfaceType, ObjectType)
    out = []

    def of_nodes(nodes):
        res = []
        for n in nodes or []:
            if n is not None:
                res += sdl._dirs_of(n)
        return res

    def put(path, apps):
        if apps:
            out.append([path, apps])
    put("", of_nodes(schema.nodes))
    for name, t in schema.types.items():
        put(name, of_nodes(getattr(t, "nodes", None)))
        if isinstance(t, (ObjectType, InterfaceType)):
            for f in t.fields:
                put("%s.%s" % (name, f.name), of_nodes([f.node]))
                for a in f.arguments:
                    put("%s.%s.%s" % (name, f.name, a.name), of_nodes([a.node]))
        if isinstance(t, InputObjectType):
            for f in t.fields:
                put("%s.%s" % (name, f.name), of_nodes([f.node]))
        if isinstance(t, EnumType):
            for v in t.values:
                put("%s.%s" % (name, v.name), of_nodes([v.node]))
    for name, d in schema.directives.items():
        for a in d.arguments:
            put("@%s.%s" % (name, a.name), of_nodes([a.node]))
    return out


def builtins_of(schema):
    """the library constants `to_string(include_introspection=True)` writes, read from the LIVE objects: the definitions of
    SPECIFIED_DIRECTIVES in the library's order and the introspection types registered in the schema"""
    from py_gql.schema import SPECIFIED_DIRECTIVES, is_introspection_type
    from canon_schema import dump_arg, dump_type
    return {"specified": [{"name": d.name, "locations": list(d.locations), "args": [dump_arg(a) for a in d.arguments],
                           "desc": d.description} for d in SPECIFIED_DIRECTIVES],
            "introspection": [dump_type(t, False) for t in schema.types.values() if is_introspection_type(t)]}


def wire_schema(schema, builtins=False):
    d = dump_schema(schema, include_builtin=False, sort=False)
    out = {"schema": d, "apps": apps_of(schema)}
    if builtins:
        out["builtins"] = builtins_of(schema)
    return out


def run_model(ctx, histories):
    if not ctx.model_ok or not ctx.driver.available():
        ctx.notes.append("model driver not built: correspondence skipped, direct oracle only")
        return
    kind = state_kind()
    ctx.extra["printer_state_kind(source)"] = kind
    reqs, expect = [], []
    for schemas, hist, outs in histories:
        intro = any(o["include_introspection"] for _, o in hist)
        ws = [wire_schema(s[2], builtins=intro) for s in schemas]
        if intro:
            ctx.stat("model-history-with-introspection")
        reqs.append({"op": "history", "state": kind, "schemas": ws,
                     "calls": [{"schema": i, "indent": (" " * o["indent"]) if isinstance(o["indent"], int) else o["indent"],
                                "descriptions": o["include_descriptions"], "custom": bool(o["include_custom_schema_directives"]),
                                "introspection": bool(o["include_introspection"]),
                                "whitelist": (list(o["include_custom_schema_directives"])
                                              if isinstance(o["include_custom_schema_directives"], (list, tuple)) else None)}
                               for i, o in hist]})
        expect.append((schemas, hist, outs))
    answers = ctx.driver.ask(reqs)
    for (schemas, hist, outs), a in zip(expect, answers):
        ctx.count(len(hist))
        texts = a.get("texts")
        if texts is None or len(texts) != len(outs):
            ctx.fail("corr:print:no-answer", "model gives no answer", {"answer": a}, kind="correspondence")
            continue
        for j, (m, r) in enumerate(zip(texts, outs)):
            rt = r[1] if r[0] == "ok" else r[1]
            if m != rt:
                ctx.fail("corr:print:text:custom=%s" % ckey(hist[j][1]),
                         "model and implementation print different texts",
                         {"schemas": [s[1] for s in schemas], "history": [[i, o] for i, o in hist], "index": j, "model": m, "real": rt},
                         kind="correspondence")
                break


def run(ctx):
    ctx.extra["printer_state_statement"] = state_statement()
    run_corpus(ctx)
    from corr import C12_partial
    C12_partial.run(ctx)                      # custom scalars with PARTIAL number-literal acceptance (deterministic class)
    run_long_descriptions(ctx)
    run_roundtrip(ctx)
    hist = []
    run_histories(ctx, hist)
    run_model(ctx, hist)
    from corr import C12_text
    C12_text.run(ctx, hist, wire_schema)      # text part: second (total) model of the printer + text-level statement
    reset_state()
    from corr.C12_fresh import Zygote
    if Zygote._inst is not None:
        Zygote._inst.close()


def replay(ctx, data):
    inp = data.get("input", {})
    if inp.get("part") == "C12_partial":
        from corr import C12_partial
        return C12_partial.replay(ctx, data)
    if "history" in inp:
        live = rebuild_cases(inp["schemas"])
        schemas = [(None, src, s, False) for src, s in zip(inp["schemas"], live)]
        hist = [(i, o) for i, o in inp["history"]]
        fresh, outs = run_history(ctx, schemas, hist)
        reset_state()
        return fresh == outs
    if inp.get("part") == "wrap":
        from py_gql import build_schema
        from py_gql import schema as S
        desc, where = inp["description"], inp["where"]
        arg = S.Argument("a", S.Int, description=desc if where == "argument" else None)
        fld = S.Field("f", S.Int, args=[arg], description=desc if where == "field" else None)
        schema = S.Schema(S.ObjectType("Query", [fld], description=desc if where == "type" else None))
        q = build_schema(schema.to_string()).types["Query"]
        got = {"type": q.description, "field": q.fields[0].description, "argument": q.fields[0].arguments[0].description}[where]
        if not ctx.model_ok or not ctx.driver.available():
            return got == inp.get("model_value")
        a = ctx.driver.ask([{"op": "wrapDesc", "d": desc, "depth": {"type": 0, "field": 1, "argument": 2}[where], "indent": "    ",
                             "first": True}])[0]
        return (not a.get("ok")) or got == "".join(chr(c) for c in a["value"])
    if inp.get("long_description"):
        from py_gql import build_schema
        from py_gql import schema as S
        desc, where = inp["description"], inp["where"]
        arg = S.Argument("a", S.Int, description=desc if where == "argument" else None)
        fld = S.Field("f", S.Int, args=[arg], description=desc if where == "field" else None)
        schema = S.Schema(S.ObjectType("Query", [fld], description=desc if where == "type" else None))
        t1 = schema.to_string()
        s2 = build_schema(t1)
        q = s2.types["Query"]
        got = {"type": q.description, "field": q.fields[0].description, "argument": q.fields[0].arguments[0].description}[where]
        return got == desc and s2.to_string() == t1
    if "source" in inp:
        schema, h2 = rebuild_case(inp["source"])
        sub = type("Sub", (), {})()
        c2 = type(ctx)(ctx.prop, ctx.tier, ctx.seed)
        check_schema(c2, schema, inp.get("origin", "replay"), inp["source"], [inp["opts"]], h2)
        reset_state()
        return not c2.found
    return True

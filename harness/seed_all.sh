#!/bin/bash
# seed_all.sh — run every seeded change against the check of its property (and extra ones given in seeded/<id>/also.txt)
cd /verif
for d in seeded/*/; do
  id=$(basename $d)
  if [ -n "$1" ] && [[ "$id" != $1* ]]; then continue; fi
  extra=""; [ -f $d/also.txt ] && extra=$(cat $d/also.txt)
  if git -C /repo apply --check $d/patch.diff 2>/dev/null; then
    echo "== $id"; python3 harness/seed_run.py $id $(python3 -c "import json;print(json.load(open('$d/meta.json'))['property'])") $extra 2>&1 | tail -4
  else
    echo "== $id: PATCH DOES NOT APPLY (needs rebase on the fix commits)"
  fi
done

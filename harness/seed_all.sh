#!/bin/bash
# seed_all.sh [prefix] — run every seeded change (or those whose id starts with prefix) against its property's check
cd /verif
for d in seeded/*/; do
  id=$(basename $d)
  if [ -n "$1" ] && [[ "$id" != $1* ]]; then continue; fi
  extra=""; [ -f $d/also.txt ] && extra=$(cat $d/also.txt)
  python3 harness/seed_run.py $id $(python3 -c "import json;print(json.load(open('$d/meta.json'))['property'])") $extra 2>&1 | tail -3
done

# -*- coding: utf-8 -*-
"""
Canonical dump of a live `py_gql.schema.Schema` object into the plain description
format shared with the Lean side (`PyGqlModel/SchemaDesc.lean`, `Driver/Codec.lean`).

Everything is read through public attributes. Python values (defaults, enum internal
values) are canonicalised to JSON (`canon_value`); floats travel as strings.
"""
import json


def ty_of(t):
    from py_gql.schema import ListType, NonNullType
    if isinstance(t, NonNullType):
        return {"k": "nonNull", "t": ty_of(t.type)}
    if isinstance(t, ListType):
        return {"k": "list", "t": ty_of(t.type)}
    return {"k": "named", "n": t.name}


def ty_tuple(j):
    return ("named", j["n"]) if j["k"] == "named" else (j["k"], ty_tuple(j["t"]))


def canon_value(v):
    """JSON-canonical form of a Python value (dict keys sorted later by json.dumps(sort_keys))."""
    if v is None or isinstance(v, (bool, int, str)):
        return v
    if isinstance(v, float):
        return {"$float": repr(v)}
    if isinstance(v, (list, tuple)):
        return [canon_value(x) for x in v]
    if isinstance(v, dict):
        return {str(k): canon_value(x) for k, x in sorted(v.items(), key=lambda kv: str(kv[0]))}
    return {"$repr": type(v).__name__}


PARAM_KINDS = {"POSITIONAL_ONLY": "posOnly", "POSITIONAL_OR_KEYWORD": "posOrKw", "VAR_POSITIONAL": "varPos",
               "KEYWORD_ONLY": "kwOnly", "VAR_KEYWORD": "varKw"}


_SIG_CACHE = {}


def dump_resolver(fn):
    """A resolver callable as data: its `inspect.signature` (None: no resolver)."""
    import inspect
    if not fn:
        return None
    hit = _SIG_CACHE.get(id(fn))
    if hit is not None and hit[0] is fn:
        return copy_sig(hit[1])
    out = _dump_resolver(fn)
    if len(_SIG_CACHE) < 200000:
        _SIG_CACHE[id(fn)] = (fn, out)       # the object is kept alive, so the id cannot be reused
    return copy_sig(out)


def copy_sig(r):
    return {"uninspectable": r["uninspectable"], "not_callable": r.get("not_callable", False), "params": [dict(p) for p in r["params"]]}


def _dump_resolver(fn):
    import inspect
    if not callable(fn):
        return {"uninspectable": True, "not_callable": True, "params": []}
    try:
        sig = inspect.signature(fn, follow_wrapped=False)   # what a call of `fn` binds, not what it decorates
    except (ValueError, TypeError):      # TypeError: not a callable at all
        return {"uninspectable": True, "params": []}
    return {"uninspectable": False,
            "params": [{"name": p.name, "kind": PARAM_KINDS[p.kind.name], "has_default": p.default is not inspect.Parameter.empty}
                       for p in sig.parameters.values()]}


def dump_arg(a):
    return {
        "name": a.name,
        "type": ty_of(a.type),
        "has_default": bool(a.has_default_value),
        "default_value": canon_value(a.default_value) if a.has_default_value else None,
        "desc": a.description,
    }


def dump_field(f, resolvers=False):
    d = {
        "name": f.name,
        "type": ty_of(f.type),
        "args": [dump_arg(a) for a in f.arguments],
        "deprecated": f.deprecation_reason if f.deprecated else None,
        "desc": f.description,
    }
    if resolvers:
        d["resolver"] = dump_resolver(f.resolver)
        d["subscription_resolver"] = dump_resolver(getattr(f, "subscription_resolver", None))
        for a, da in zip(f.arguments, d["args"]):
            da["python_name"] = a.python_name
    return d


def dump_type(t, resolvers=False):
    from py_gql.schema import (EnumType, InputObjectType, InterfaceType, ObjectType, ScalarType, UnionType)
    d = {"name": t.name, "desc": getattr(t, "description", None), "interfaces": [], "fields": [],
         "members": [], "values": [], "input_fields": []}
    if isinstance(t, ObjectType):
        d["kind"] = "object"
        d["interfaces"] = [i.name for i in t.interfaces]
        d["fields"] = [dump_field(f, resolvers) for f in t.fields]
        if resolvers:
            d["default_resolver"] = dump_resolver(t.default_resolver)
    elif isinstance(t, InterfaceType):
        d["kind"] = "interface"
        d["fields"] = [dump_field(f, resolvers) for f in t.fields]
    elif isinstance(t, UnionType):
        d["kind"] = "union"
        d["members"] = [m.name for m in t.types]
    elif isinstance(t, EnumType):
        d["kind"] = "enum"
        d["values"] = [{"name": v.name, "value": canon_value(v.value),
                        "deprecated": v.deprecation_reason if v.deprecated else None, "desc": v.description}
                       for v in t.values]
    elif isinstance(t, InputObjectType):
        d["kind"] = "input"
        d["input_fields"] = [dump_arg(f) for f in t.fields]
    elif isinstance(t, ScalarType):
        d["kind"] = "scalar"
    else:
        d["kind"] = "?" + type(t).__name__
    return d


def dump_schema(schema, include_builtin=False, sort=False, resolvers=False):
    """Description of `schema`. Built-in scalars, introspection types and specified directives are
    left out unless `include_builtin`. Order = registry order unless `sort`.
    `resolvers=True` adds resolver signatures as data (`resolver`, `default_resolver`, `python_name`)
    and the `builtin` flag of each type (used by the schema validation model, C13)."""
    from py_gql.schema import SPECIFIED_DIRECTIVES, is_introspection_type
    from py_gql.schema.scalars import SPECIFIED_SCALAR_TYPES
    builtin = {s.name for s in SPECIFIED_SCALAR_TYPES}
    types = []
    for name, t in schema.types.items():
        if not include_builtin and (name in builtin or is_introspection_type(t)):
            continue
        types.append(dump_type(t, resolvers))
        if resolvers:
            types[-1]["builtin"] = bool(is_introspection_type(t) or t in SPECIFIED_SCALAR_TYPES)
    dirs = []
    spec = {d.name for d in SPECIFIED_DIRECTIVES}
    for name, d in schema.directives.items():
        if not include_builtin and name in spec:
            continue
        dirs.append({"name": d.name, "locations": list(d.locations), "args": [dump_arg(a) for a in d.arguments],
                     "desc": d.description})
    if sort:
        types.sort(key=lambda t: t["name"])
        dirs.sort(key=lambda t: t["name"])
    out = {
        "types": types,
        "directives": dirs,
        "query": schema.query_type.name if schema.query_type else None,
        "mutation": schema.mutation_type.name if schema.mutation_type else None,
        "subscription": schema.subscription_type.name if schema.subscription_type else None,
    }
    if resolvers:
        out["default_resolver"] = dump_resolver(schema.default_resolver)
    return out


def desc_of_gen(desc, build=None):
    """Convert a generator description (gen/schema.py; literal defaults) to the dump format by
    building it with the real library and dumping (only for convenience in tests)."""
    from py_gql import build_schema
    from gen import schema as gs
    return dump_schema((build or build_schema)(gs.to_sdl(desc)))


def canon(d):
    return json.dumps(d, sort_keys=True, ensure_ascii=True)

#!/usr/bin/env python3
"""Regenerates the generated tables of DESIGN.md (between <!-- BEGIN:x --> / <!-- END:x --> markers)."""
import glob
import json
import os
import re

V = os.path.join(os.path.dirname(os.path.abspath(__file__)), "..")


def seeded_table():
    rows = ["| seed | what was changed (independent sub-agent) | needs to manifest | outcome of the checks |", "|---|---|---|---|"]
    for d in sorted(glob.glob(os.path.join(V, "seeded", "*"))):
        sid = os.path.basename(d)
        m = json.load(open(d + "/meta.json"))
        det = {}
        if os.path.exists(d + "/detection.json"):
            det = json.load(open(d + "/detection.json"))
        outs = []
        for p, r in sorted(det.items()):
            if p.startswith("_"):
                outs.append(r if isinstance(r, str) else str(r))
                continue
            if r.get("exit") == 1:
                sig = (r.get("signatures") or ["?"])[0]
                if any("no-failing-input-found" in l for l in r.get("violation_lines", [])) and sig in (None, "no-failing-input-found"):
                    outs.append("%s: proof/correspondence breaks, **no failing input** (the change does not falsify the statement on the fixed tree)" % p)
                else:
                    outs.append("%s: **caught** (`%s`)" % (p, sig))
            elif r.get("exit") == 0:
                outs.append("%s: missed" % p)
            else:
                outs.append("%s: %s" % (p, r.get("exit")))
        summ = re.sub(r"\s+", " ", m.get("summary", ""))[:230]
        needs = re.sub(r"\s+", " ", m.get("needs_to_manifest", ""))[:200]
        if m.get("retired"):
            outs = ["**retired**: " + re.sub(r"\s+", " ", str(m["retired"]))[:260].replace("|", "/")]
        rows.append("| %s%s | %s | %s | %s |" % (sid, " (rebased)" if m.get("rebased") else "", summ.replace("|", "/"), needs.replace("|", "/"), "; ".join(outs) or "not run"))
    return "\n".join(rows)


def theorem_table():
    rows = ["| property | obligations (all discharged) | of which `_partial` | known findings seen | quick evaluations / distinct non-trivial | wall s |", "|---|---|---|---|---|---|"]
    for f in sorted(glob.glob(os.path.join(V, "evidence", "C*.json"))):
        e = json.load(open(f))
        c = e["coverage"]
        rows.append("| %s | %d/%d | %s | %s | %d / %d | %.0f |" % (
            e["property_id"], c["discharged"], c["obligations"],
            ", ".join("`%s`" % t.split(".")[-1] for t in c.get("theorems_partial", [])) or "—",
            ", ".join(sorted({k.get("id") or "?" for k in c.get("known_findings_seen", [])})) or "—",
            c["evaluations"], c["distinct_nontrivial"], e["wall_s"]))
    return "\n".join(rows)


def fixed_table():
    k = json.load(open(os.path.join(V, "known_findings.json")))
    rows = ["| property | `fix:` commit in /repo | what failed before the repair |", "|---|---|---|"]
    for line in k["fixed"]:
        m = re.match(r"fixed: property=(\S+) (\S+) (.*)", line, re.S)
        if m:
            rows.append("| %s | `%s` | %s |" % (m.group(1), m.group(2), re.sub(r"\s+", " ", m.group(3)).replace("|", "/")))
    return "\n".join(rows)


def known_table():
    k = json.load(open(os.path.join(V, "known_findings.json")))
    rows = ["| property | id | signature the check matches | what fails (why it is recorded rather than repaired) |", "|---|---|---|---|"]
    for f in sorted(k["findings"], key=lambda f: (f["property"], str(f.get("id")), f["signature"])):
        rows.append("| %s | %s | `%s` | %s |" % (f["property"], f.get("id") or "—", f["signature"],
                                             re.sub(r"\s+", " ", f["what"])[:420].replace("|", "/")))
    return "\n".join(rows)


def main():
    p = os.path.join(V, "DESIGN.md")
    s = open(p).read()
    for name, fn in (("seeded", seeded_table), ("theorems", theorem_table), ("fixed", fixed_table), ("known", known_table)):
        a, b = "<!-- BEGIN:%s -->" % name, "<!-- END:%s -->" % name
        if a in s:
            i, j = s.index(a) + len(a), s.index(b)
            s = s[:i] + "\n" + fn() + "\n" + s[j:]
    open(p, "w").write(s)


if __name__ == "__main__":
    main()

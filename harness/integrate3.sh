#!/bin/bash
# integrate3.sh <agent-name> [Cxx ...] — merge a builder's clone; conflicts: evidence -> theirs; manifest_data.py -> ours + the lines
# the builder ADDED relative to the merge base (its blocks are append-only); DESIGN.md -> both sides; then manifest, build, checks.
set -u
name=$1; shift
cd /verif || exit 1
git config pull.rebase false
their=$(git -C /tmp/w-$name rev-parse HEAD)
git fetch -q /tmp/w-$name HEAD
base=$(git merge-base HEAD FETCH_HEAD)
git merge --no-edit -q FETCH_HEAD 2>&1 | grep -v hint | tail -3
for f in $(git diff --name-only --diff-filter=U); do
  case $f in
    evidence/*|seeded/*/detection.json|MANIFEST.json|neutral/*/detection.json) git checkout --theirs -- $f; git add $f;;
    harness/manifest_data.py)
      git show HEAD:$f > /tmp/md_ours.py; git show $base:$f > /tmp/md_base.py; git show FETCH_HEAD:$f > /tmp/md_theirs.py
      python3 harness/merge_manifest_data.py /tmp/md_base.py /tmp/md_ours.py /tmp/md_theirs.py $f
      python3 -c "import ast;ast.parse(open('$f').read())" && git add $f || echo "manifest_data.py: merge does not parse";;
    DESIGN.md) python3 harness/resolve_both.py DESIGN.md; git add DESIGN.md;;
    *) echo "UNRESOLVED CONFLICT: $f";;
  esac
done
if [ -n "$(git diff --name-only --diff-filter=U)" ]; then echo "merge needs manual resolution"; exit 1; fi
git commit -q --no-edit 2>/dev/null
python3 harness/manifest_gen.py || exit 1
(cd lean && lake build 2>&1 | grep -E "^✖|error|Build completed" | head -20)
for p in "$@"; do
  for s in 0 1; do VERIF_SEED=$s timeout 900 /venv/bin/python harness/check.py $p 2>&1 | grep "quick seed\|^VIOL" | head -4; done
done

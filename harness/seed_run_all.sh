#!/bin/bash
# seed_run_all.sh [base] [jobs] [ids...] — run seed_run.py for every seed under base (default /verif/seeded) in parallel slots
base=${1:-/verif/seeded}; jobs=${2:-6}; shift; shift
cd "$(dirname "$0")/.."
ids="$@"; [ -z "$ids" ] && ids=$(ls $base)
i=0
for id in $ids; do
  slot=$((i % jobs)); i=$((i+1))
  echo "$slot $id"
done | sort -n | awk '{print $1" "$2}' > /tmp/seed_run_all.plan
for s in $(seq 0 $((jobs-1))); do
  ( for id in $(awk -v s=$s '$1==s {print $2}' /tmp/seed_run_all.plan); do
      SR_SLOT=-$s SEED_BASE=$base python3 harness/seed_run.py $id 2>&1 | tail -3
    done ) > /tmp/seed_run_all.$s.log 2>&1 &
done
wait
cat /tmp/seed_run_all.*.log

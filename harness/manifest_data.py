# -*- coding: utf-8 -*-
"""Per-property manifest entries. One dict entry per CLAIMED property."""

HOOK_COMMITS = []

NOTES = ("All checks: `harness/check.py Cxx`. Each run re-extracts Generated/*.lean from /repo's working tree, "
         "rebuilds the property's Lean theorems and driver, audits axioms, then runs the correspondence and the "
         "direct property oracle on the real code. known_findings.json lists reproduced defects of the unchanged tree.")

NOT_APPLICABLE = {}

CHECKS = {
    "C06": {
        "text": ('Lean model of the whole validation chain (TypeInfo stacks, ChainedVisitor/SkipNode semantics, all 26 rule visitors, VariablesCollector, fragment cycle'
                 ' search, field-merge search with its caches) whose rule list must equal SPECIFIED_RULES RE-EXTRACTED from validate.py each run (rules_match_source); r'
                 'ule_*_iff for 10 rules (executable definitions, lone anonymous operation, unique operation / fragment names, known fragment names, unique argument nam'
                 'es, unique directives per location, single field subscriptions, known type names, variables are input types) on top of visitDocument_E (a non-skipping'
                 ' chain enters/leaves every node exactly once); for those: verdict_iff_partial, perm_definitions/selections/arguments_partial, alpha_fragments_partial,'
                 ' attribution_partial; machine-checked refutations of order-invariance for the UNFIXED collector (V3, V4). 16 rules are listed in Spec.Unproved. Tied b'
                 'y correspondence (verdict on every document; set of reporting rules on single-violation documents; every rule standalone) and the direct oracle: valid'
                 '-by-construction => no error, each of 35 labelled single-rule violations => error attributable to that rule, verdict unchanged under the six transform'
                 'ations.'),
        "note": ('Trusted: Lean kernel; generators/injectors; is_subtype/types_overlap hand-modelled. The 16 unproved rules and alias/variable renaming rest on the corr'
                 'espondence + oracle. Known finding V8 (list literal at non-list position accepted).'),
        "technique": 'Lean 4 proof (10 of 26 rules, chain walk, invariances) + full-chain model correspondence + labelled-violation/metamorphic oracle',
    },
    "C08": {
        "text": ('Lean model of chain / unwrap_future / gather_futures (counter state machine) / asyncio gather_values and of the generic Executor over a simplified ope'
                 'ration form with schedule-driven completion (modes sync, deferred, nested, already-finished): gather_slots, gather_first_exception, chain_else, unwrap'
                 '_*, gather_values_patch, schedule_independent, unexpected_surfaces, async_eq_blocking (for every schedule: same data, error lists are permutations), a'
                 'lways_terminates (Live invariant over whole executor trees), all full. Tied by running the REAL combinators/executors under a controlled scheduler (ma'
                 'nual executor incl. completion at submit; harness-resolved futures on a private asyncio loop) for all schedules of <=4/6 tasks in four configurations,'
                 ' plus REAL 1- and 2-worker pools with in-flight resolvers and nested futures; pairwise equality oracle, trace correspondence, confirmed watchdog for h'
                 'angs.'),
        "note": ('Trusted: Lean kernel; generators; asyncio task scheduling is only exercised. Residual that no model here exhibits: true parallel interleaving of callb'
                 'ack bodies on worker threads (non-atomic `done += 1` in gather_futures).'),
        "technique": 'Lean 4 proof (combinator state machines, schedule independence, termination) + controlled-schedule exhaustive correspondence',
    },
    "C09": {
        "text": ("execute_fields_serially as the code's state machine over the C08 algebra: keys_in_order, failure_does_not_stop, blocking_serial (full), serial_order_p"
                 "artial (the next top-level field cannot start while the current field's node holds an outstanding task; trace form kept visible). Tied by call/done ev"
                 'ent traces of the real executors under all completion orders (four configurations, real small pools, fragment-only mutation roots, nested futures fail'
                 'ing at each position) and the direct trace-predicate oracle.'),
        "note": ('Trusted: Lean kernel; generators. The transfer of serial_order from tree states to trace positions is unproved (checked on every generated trace).'),
        "technique": 'Lean 4 proof (serial queue machine) + controlled-schedule trace oracle',
    },
    "C04": {
        "text": ('Lean model of collect_fields (with the _seen_fragments quirk), _skip_selection, _fragment_type_applies, execute_fields, resolve_field, complete_value,'
                 " resolve_type, serialisation and the error accumulator, and the spec's CollectFields/ExecuteSelectionSet/CompleteValue: skip_include, alias_merge, key"
                 's_document_order, abstract_possible_type, local null/error lemmas, null_error_bijection (global: error paths are distinct and each is a null position)'
                 ", exec_world_congr / siblings_undisturbed_world (changing the world under one response key leaves every other key's data and errors identical), exec_p"
                 'ure, fuel monotonicity/sufficiency (every ranked document responds), exec_refines_spec_partial (exact equality model = spec without named spreads; wit'
                 'h spreads reduced to agreement of collect_fields: exec_refines_spec_of_collect; quirk witness machine-checked). Tied by ordered-data / error-multiset '
                 'correspondence real executor vs model vs Lean spec on generated schemas, valid operations (multi-spread with conditions), worlds and request histories'
                 '.'),
        "note": ('Trusted: Lean kernel; generators; argument/variable coercion computed by the real code (opaque here, C07); introspection fields and the async executor'
                 " are other properties' models."),
        "technique": 'Lean 4 proof (executor model vs spec, bijection, locality) + world-resolver correspondence',
    },
    "C05": {
        "text": ('validated_no_internal_error (full: under SchemaOk, the declarative ValidDoc, KeyConsistent and a typed world no request ends in an internal exception;'
                 ' each side condition is tied to the branch it closes), validated_shape / validated_shape_field, rank certificates checked on every accepted document; '
                 'tied by an adversarial stream of invalid/mutated documents: validate_ast must return; accepted => ValidDoc (Lean) and execution under typed worlds rai'
                 'ses no internal exception, has the schema shape and one unambiguous value per response key.'),
        "note": ('Trusted: Lean kernel; generators. KeyConsistent is stronger than OverlappingFieldsCanBeMerged (reported as a statistic); the 26 rules themselves belon'
                 'g to C06. Known finding V8 (`@include(if: [true])` passes validation and raises CoercionError at execution).'),
        "technique": 'Lean 4 proof (type soundness of the executor model) + adversarial validate/execute oracle',
    },
    "C07": {
        "text": ('Lean model of coerce_value / value_from_ast / coerce_variable_values / coerce_argument_values / scalar parsers with the Int range test and the Float f'
                 'initeness guard TRANSLATED from scalars.py each run: variable_sound, literal_sound, variables_sound, arguments_sound (=> Conforms), int_full_range, li'
                 'teral_variable_equiv (same outcome on both routes, recursive input objects), omission/wrapping/rejection theorems, floatGuard_spec, fuel-free restatem'
                 'ents with a proved fuel bound, the bridge validated_arguments_sound (VariablesInAllowedPosition + variables_sound => VarsFit) and the trace theorems n'
                 'o_resolver_call_on_rejected_arguments/variables, every_call_conforms. Tied by correspondence on all type expressions x literals x JSON values x provid'
                 'ed/omitted/null and by the calls recording resolvers actually see in real runs (order and kwargs; divergent interface implementations sharing one fiel'
                 'd node).'),
        "note": ('Trusted: Lean kernel; translator; Python int()/float() parsing enters as harness-observed annotations. The trace model covers top-level selections (ne'
                 'sted ones by the pipeline oracle).'),
        "technique": 'Lean 4 proof (coercion soundness, route equivalence, before-resolver trace) + source-translated range tests + resolver-kwargs correspondence',
    },
    "C01": {
        "text": ('Lexer: Lean model of Lexer.__next__/_read_* with lex_sound (tokens tile the text between ignored runs; every lexeme satisfies its spec recogniser and '
                 'decodes to the token value; maximal munch and number look-ahead), lex_fuel_sufficient, lex_render_partial / lex_ignored_invariant_partial (punctuators'
                 ', names, quoted strings: re-rendering with other ignored runs keeps kinds and values), error_in_range_partial (+ refutation: position len+1 pinned, fi'
                 'nding L6), render_total, table-to-spec theorems over the tables RE-EXTRACTED from lexer.py each run. Parser: Lean model of every parse_* with parse_so'
                 'und_document, parse_complete_document and parseDocument_accepts_iff (the token list is accepted exactly when it derives from the grammar) for all 8 fl'
                 'ag combinations and the three entry points; parse_text_accepts_iff_partial composes both; keyword/location tables re-extracted from parser.py. Tied by'
                 ' text->tokens->AST correspondence (str and UTF-8 bytes) on grammar-directed documents, mutants, every prefix, fixtures, CR/LF/CRLF variants and bounde'
                 'd-exhaustive token strings, plus direct oracles (spec recognisers, error contract, ignored-run invariance).'),
        "note": ('Trusted: Lean kernel; table extraction; generators. lex_render is partial (number and block-string completeness against the recognisers is exercised, '
                 'not proved). RecursionError on deep nesting is the named probe (finding P1).'),
        "technique": 'Lean 4 proof (lexer soundness, grammar acceptance iff, tables) + extracted tables + text/token/AST correspondence',
    },
    "C02": {
        "text": ('block_string_spec (parse_block_string model = BlockStringValue transcribed from the spec, all inputs), escape_spec (iff with StringCharacter*), number'
                 "_verbatim; span_spec_document (every node's loc is the span of its own token segment, siblings consecutive, children nested) for all documents and fla"
                 "g combinations; noloc_erasure (no_location only erases positions) and noloc_acceptance. Tied by correspondence of decoded values and of every node's l"
                 "oc, and the direct oracle 'source[loc] re-parses to an equal node' incl. trailing children (directives of variable definitions, ...)."),
        "note": ('Trusted: Lean kernel; generators; the lexer positions feeding the spans are covered by lex_sound (C01).'),
        "technique": 'Lean 4 proof (block strings, escapes, spans for all documents, no_location erasure) + decode/span correspondence + re-parse oracle',
    },
    "C03": {
        "text": ('String level: quoted_roundtrip (lexAll (jsonDumps v) is exactly the String token v, all code-point lists), block_roundtrip_partial (escaping half) + t'
                 'he three layout lemmas (splitLines/joinLF, commonIndent shift, stripBlank). Document level: Lean model of the whole ASTPrinter (every print_*, _wrap/_'
                 'join/_block/_indent, indent int or string, include_descriptions); print_parse_type, print_parse_value (all value kinds; block strings under a named hy'
                 'pothesis), print_tokens_directives, float_lexeme_spec, print_total, print_ignores_member_descriptions; print_parse_partial above directives; print_par'
                 'se_refuted = machine-checked witness of finding R4 (member descriptions dropped, pinned by test_schema_kitchen_sink). Tied by EXACT-TEXT correspondenc'
                 'e of the pipeline text -> lexAll -> parse -> print with print_ast on generated executable and type-system documents, fixtures and mutants for 7 indent'
                 ' settings, and the direct round-trip / stability oracle.'),
        "note": ('Trusted: Lean kernel; generators. print_parse for selections, operations and type-system definitions is not proved yet (exact-text correspondence + ro'
                 'und-trip oracle only); layout half of block_roundtrip not composed.'),
        "technique": 'Lean 4 proof (string encoders, values, types, directives) + exact-text printer correspondence + round-trip oracle',
    },
    "C11": {
        "text": ('Lean model of the SDL builder (collect definitions/extensions, build_*/extend_*, roots, defaults, deprecation, circular-reference guard, ignore_extens'
                 'ions, additional_types): collect_exact / collect_ok / collect_rejects_*, build_exact_noext (documents without extensions: build = declared content exa'
                 'ctly), build_perm_noext / build_perm_roots_noext, extension_merge_exact (base members then block members in document order) with appendNew_*, build_re'
                 'jects (every error is a library error or the S1b RecursionError; refutation shows the disjunct is needed); build_exact with extensions is refuted by a'
                 ' decide witness (finding S8), full statements visible. Tied by correspondence of canonical schema dumps on generated SDL (six kinds, extensions split '
                 'over blocks, permuted orders, 48 labelled defects incl. duplicates among extension-added members) and the direct oracle Declared(doc) / exception clas'
                 's.'),
        "note": ('Trusted: Lean kernel; generators; Schema.validate() not modelled (documents rejected only by validation are compared with validation disabled). Known '
                 'findings S8, S10, S1b.'),
        "technique": 'Lean 4 proof over builder model + schema-dump correspondence + labelled-defect oracle',
    },
    "C12": {
        "text": ('Lean model of ASTSchemaPrinter as schema -> text with the module-level directive-name state threaded explicitly: print_pure (for every history of call'
                 's the k-th output equals the output of that call alone in a fresh state), print_pure_refuted_today_full (text-level 2-call witness of H1 on a generato'
                 'r state), state lemmas; model text == real text on every call of random to_string histories; every history also runs in ONE forked child and every cal'
                 'l alone in a fresh child (catches any process-wide hidden state, e.g. function caches on shared custom scalars); direct oracles dump(build(to_string(s'
                 '))) == dump(s), fixpoint, parser accepts.'),
        "note": ('Trusted: Lean kernel; generators. to_doc_build / default_roundtrip are not proved (oracle only); include_introspection not modelled. Known findings H2'
                 ', H3, H5, H6, H8.'),
        "technique": 'Lean 4 proof (printer purity over call histories) + exact-text correspondence + fresh-process reference + round-trip oracle',
    },
    "C14": {
        "text": ("Object-heap model (identities, shallow copy, heal visitor, clone, transforms, extend) whose code variant flags are RE-EXTRACTED from schema.py / ast_type_builder.py / "
                 "schema_from_ast.py each run: extend_frames_source and extend_sequence_frames_source (all inputs), healed_registered, busted_accumulates, frame algebra; "
                 "clone/transform closedness and frame are _partial with decide witnesses for the fixed variant and machine-checked refutations for the legacy variant (T1,T2,T3,S2). "
                 "Tied by correspondence of the live object graph (identities canonicalised) over random clone/transform/extend sequences and direct closedness / frame / preservation oracles."),
        "note": "Trusted: Lean kernel; flag extraction; generators. General clone_closed / transform_closed / untouched_preserved are not proved (correspondence + oracle only).",
        "technique": "Lean 4 proof over heap model (frame for extend; witnesses) + live object-graph correspondence",
    },
    "C15": {
        "text": ('introspect_lossless proved in full (decoder(introspect s) = norm s for every schema with <= 7 wrappers; bound shown tight), deprecated_hidden, disable'
                 'd_hides_all, disabled_keeps_ordinary, read_print (the literal reader inverts print_ast on every literal), default_parses_partial about _format_default'
                 '_value TRANSLATED from source each run (every default kind round-trips except plain strings with control characters other than TAB/LF/CR) + default_pa'
                 'rses_refuted (raw FORM FEED, pinned by test_introspection_on_input_object). Tied by correspondence of the full introspection JSON and the direct decod'
                 'e-and-compare / re-parse-default / empty-reason oracle.'),
        "note": ('Trusted: Lean kernel; translator; generators. asyncio/thread-pool runs only exercised by the Python oracle. Known finding I1 (residual: control charac'
                 'ters in plain string defaults).'),
        "technique": 'Lean 4 proof (lossless decoder, default round trip) + source-translated formatter + introspection JSON correspondence',
    },
    "C16": {
        "text": ("Trace model of process_graphql_query / execute / both executors' resolve_field / apply_middlewares / MultiInstrumentation: stages_nested (every outcom"
                 'e incl. subscription operations, executor, schedule), field_hooks_once, field_hooks_ordered (every schedule), field_paths_unique, field_hooks_exactly_'
                 'once_per_path, middleware_once_in_order, multi_order, multi_member_sees_all, all full. Tied by event-trace correspondence on all request outcomes x fo'
                 'ur configurations x all 36 schedules and the direct bracket/once oracle.'),
        "note": ('Trusted: Lean kernel; generators. Thread-pool runs use atomic completions only; ApolloTracer payload only checked by the oracle.'),
        "technique": 'Lean 4 proof over hook-trace model + controlled-schedule trace correspondence',
    },
    "C17": {
        "text": ('Model of subscribe / create_source_event_stream (root collection through fragments: collected_root_fields, root_rule_spelling_independent) / execute_s'
                 "ubscription_event with the shared executor's error list and clear_errors, AsyncMap: one_result_per_event, kth_result_is_exec_of_kth_event, errors_isol"
                 'ated (+ decide refutation without clear_errors), refusals (6 clauses, no event consumed), accepted_stream, all full. Tied by correspondence and a dire'
                 'ct oracle on the real subscribe() on a private asyncio loop (event lists, delays, errors on arbitrary events, every refusal incl. fragment-expanded mu'
                 'lti-field roots with source-consumption detection, accepted duplicate/fragment spellings of one field).'),
        "note": ('Trusted: Lean kernel; generators. Overlapping __anext__ calls on one executor are outside the sequential protocol modelled.'),
        "technique": 'Lean 4 proof over subscription stream model + real asyncio stream oracle',
    },
    "C18": {
        "text": ('Generic table-driven visitor model over rose trees; the traversal table (children, order, assignment) and dispatch registries are RE-EXTRACTED from vi'
                 'sitor.py / ast.py each run: identity_noop, balanced, once, visitM_edit with delete_at / replace_at / skip_at (= Spec.editAt at every position reached '
                 'through the implemented child relation), frame rules, chained_order (all tables/visitors), table facts by decide +kernel; coverage is coverage_partial'
                 ' with machine-checked gap witnesses (findings W1-W6; each names the literal event list in test_visitor.py that pins it). Tied by trace/tree correspond'
                 'ence with scripted real visitors at every node position, Spec.editAt vs the real code, and the direct exactly-once / nesting / locality oracle.'),
        "note": ('Trusted: Lean kernel; table extractor; generators.'),
        "technique": 'Lean 4 proof over source-extracted traversal table + visitor trace correspondence',
    },
    "C19": {
        "text": ('Model of collect_fields_untyped / selected_fields / MaxDepthValidationRule (with per-operation variable coercion) and an independent depth specificati'
                 'on: flags_iff(_v), no_raise(_v), name_filter, wrap_inline_ge, wrap_spread_ge (acyclicity of the wrapped document as hypothesis), depth_fuel_irrelevant'
                 ', measured_eq_depth, selected_fields_complete; decide refutations for the original rule and the original selected_fields. Tied by correspondence (erro'
                 'r set, raises, listed paths) and the direct oracles flagged <=> spec depth > limit and listed paths = reference paths on exhaustive small distribution'
                 's over fragments, also through graphql_blocking with validators.'),
        "note": ('Trusted: Lean kernel; generators. Soundness of selected_fields (only selected paths listed) is checked by the oracle, not proved.'),
        "technique": 'Lean 4 proof (rule = spec depth, path completeness) + exhaustive small-scope correspondence',
    },
    "C10": {
        "text": ('Lean theorems about the hand model of index_to_loc / to_dict of every error class / GraphQLResult.response / the staged process_graphql_query / the ex'
                 "ecutors' error capture: loc_bounds (all texts, all positions, LF/CR/CRLF), index_to_loc_total_iff, data_omitted_iff, null_error_bijection, null_sites_"
                 'nodup, null_sites_are_null, exactly_one_error_per_site, result_wellformed, executed_response_wellformed, response_wellformed_partial (+ refutation of '
                 'the full statement: the misspelt `columne` key, finding X1); response keys and the data=None flags of the _abort calls are re-extracted from source ea'
                 'ch run; tied by stage-outcome correspondence and a direct WellFormed + site/error multiset oracle on four configurations incl. execution-time argument'
                 ' coercion failures under lists and shared error instances.'),
        "note": ('Trusted: Lean kernel; extraction of key names/abort flags; stage internals (parse, validate, coerce) are observed through the real functions; sharing '
                 'of one exception object between registrations is covered by the oracle, not by a theorem.'),
        "technique": 'Lean 4 proof over staged response model + extracted keys + direct response-format oracle',
    },
    "C13": {
        "text": ('Lean theorems about a method-by-method model of SchemaValidator: validate_iff/accepts_iff (no error <=> ValidSchema), violation_iff (an error is repor'
                 'ted <=> that rule instance is violated: all violations together, both directions), subtype_iff about Schema.is_subtype TRANSLATED from source each run'
                 ', perm_types, cache_sound_all (over all histories of validate / register_* / multi-entry replace requests incl. refusals; the accumulation, atomicity '
                 'and directive flags are RE-EXTRACTED from _replace_types_and_directives), legacy refutations, name_iff about the extracted VALID_NAME_RE classes; tied'
                 ' by correspondence (verdict + set of reporting rules) on generated schemas with labelled violations, permutations and cache histories, with Lean-guard'
                 'ed shrinking.'),
        "note": ('Trusted: Lean kernel; py2lean translator; extraction of name classes, rule format strings (used only to attribute errors) and replace flags; inspect.s'
                 'ignature, build_schema and fix_type_references are exercised, not modelled; direct assignment field.resolver=f is outside the statement.'),
        "technique": 'Lean 4 proof over hand model + source-translated is_subtype + labelled-violation correspondence',
    },
    "C20": {
        "text": ("Lean theorems about the safe-change predicates TRANSLATED from differ/__init__.py on every run "
                 "(safeIn_iff: exact for all type expressions; safeOut_iff_partial + machine-checked refutation of the "
                 "full statement = finding G1) and about the severity table EXTRACTED from changes.py; tied further by "
                 "exhaustive comparison of the real predicates with the compiled model on all type pairs of depth<=3/4 and "
                 "by a schema-level oracle (generated schema + elementary edit + reverse edit) on the real diff_schema. "
                 "diff_schema itself is modelled in Lean (Diff.lean) with theorems diff_refl (all schemas with unique names), "
                 "removed/retyped elements reported as BREAKING, nobreaking_args_permissive (semantic, full), "
                 "nobreaking_fields_strict_partial (list-free types; G1), min_severity_filters, diff_perm (permuting the type and directive definitions of "
                 "either schema permutes the report: same multiset of changes at every filter; no_breaking_perm), and the schema-shape half of 'operations valid on the old schema stay "
                 "valid': nobreaking_types_kept / kinds_kept / fields_kept / arguments_kept / no_new_required_argument / enum_values_kept / union_members_kept / "
                 "input_fields (kept, at least as permissive, no new required one); the model is compared with the real "
                 "diff_schema on every generated schema pair (multiset of class, severity, identifying attributes)."),
        "note": ("Trusted: Lean kernel; py2lean translator; reference semantics of type expressions on abstract values "
                 "(accepts); generators. diff_schema's traversal is hand-modelled and tied by correspondence (not re-translated); "
                 "'every operation valid on old stays valid' is proved at schema-shape level and explored with sampled valid operations (gen/operation.py) "
                 "re-validated on the new schema; code-built enums (internal values != names) and diff/clone/transform histories are exercised by the oracle."),
        "technique": "Lean 4 proof over source-translated predicates + exhaustive small-scope correspondence + edit oracle",
    },
}


# ---------------------------------------------------------------------------------------------------------------
# Final-state texts (they replace the entries above for the properties whose theorems were completed later).
# The list of obligation names is appended to every text by manifest_gen.py from the Props files themselves.
# ---------------------------------------------------------------------------------------------------------------
CHECKS["C01"].update({
    "text": ("Lexer: Lean model of Lexer.__next__/_read_* with lex_sound (tokens tile the text between ignored runs; every lexeme satisfies its spec "
             "recogniser and decodes to the token value; maximal munch and number look-ahead), lex_render (completeness: every token list rendered with "
             "arbitrary ignored runs lexes back to itself, ALL token kinds incl. numbers and block strings), lexAll_ok_iff (the lexer accepts a text exactly "
             "when it is such a rendering), lex_ignored_invariant, lex_fuel_sufficient, render_total, error_in_range_partial (+ refutation: position len+1, "
             "finding L6, pinned by the suite), table-to-spec theorems over the tables RE-EXTRACTED from lexer.py each run. Parser: Lean model of every "
             "parse_* with parse_sound_document, parse_complete_document, parseDocument_accepts_iff (a token list is accepted exactly when it derives from "
             "the grammar; the derivation is unique) for all 8 flag combinations and the three entry points; parse_text_accepts_iff / parse_text_result "
             "compose lexer and parser at TEXT level; keyword/location tables re-extracted from parser.py. Tied by text->tokens->AST correspondence (str and "
             "UTF-8 bytes) on grammar-directed documents, mutants, every prefix, fixtures, CR/LF/CRLF variants and bounded-exhaustive token strings, plus "
             "direct oracles (spec recognisers, error contract, ignored-run invariance)."),
    "note": ("Trusted: Lean kernel; table extraction; generators. Error positions are only proved in range up to the pinned L6 case. RecursionError on "
             "deep nesting is the named probe (finding P1)."),
    "technique": "Lean 4 proof (lexer soundness+completeness, grammar acceptance iff at text level, tables) + extracted tables + text/token/AST correspondence",
})
CHECKS["C03"].update({
    "text": ("String level: quoted_roundtrip (lexAll (jsonDumps v) is exactly the String token v, all code-point lists) and block_roundtrip (FULL: for every "
             "value the printer lays out as a block string, lexing the printed text and applying BlockStringValue gives the value back; with the layout "
             "lemmas splitLines/joinLF, commonIndent shift, stripBlank). Document level: Lean model of the whole ASTPrinter (every print_*, "
             "_wrap/_join/_block/_indent, indent int or string, include_descriptions): print_tokens_* (the printed text lexes to the expected token list), "
             "print_parse_type / print_parse_value_full / print_parse_executable (exact), print_parse_document_modulo_members (ALL documents, type-system "
             "definitions and extensions included: re-parsing the printed token list gives the tree back up to the member descriptions the printer drops) "
             "and print_parse_document_exact when there are none, print_stable_* (print . parse . print = print), print_total, float_lexeme_spec; "
             "print_parse_refuted + r4_* = machine-checked witness of finding R4 (member descriptions dropped; pinned by test_schema_kitchen_sink). Tied by "
             "EXACT-TEXT correspondence of the pipeline text -> lexAll -> parse -> print with print_ast on generated executable and type-system documents, "
             "fixtures and mutants for 7 indent settings, call histories of print_ast / ASTPrinter, and the direct round-trip / stability oracle."),
    "note": ("Trusted: Lean kernel; generators. The document-level theorems are stated on the token list the printer emits (print_tokens_*) composed with "
             "the parser model; the remaining text-level bridge hypothesis is named in Props/C03_document.lean (print_parse_modulo_members_of_bridge). "
             "Known finding R4."),
    "technique": "Lean 4 proof (string encoders, printer model, print/parse round trip for all documents modulo R4) + exact-text printer correspondence + round-trip oracle",
})
CHECKS["C04"].update({
    "text": ("Lean model of collect_fields (with the _seen_fragments quirk), _skip_selection, _fragment_type_applies, execute_fields, resolve_field, "
             "complete_value, resolve_type, default_resolver, serialisation and the error accumulator, and the spec's "
             "CollectFields/ExecuteSelectionSet/CompleteValue: exec_refines_spec (for EVERY ranked document, named spreads included, the executor model's "
             "response equals the spec's; collect_refines_spec handles the quirk), skip_include*, alias_merge, keys_document_order, abstract_possible_type, "
             "local null/error lemmas, null_error_bijection (error paths are distinct and each is a null position), exec_world_congr / "
             "siblings_undisturbed_world (changing the world under one response key leaves every other key's data and errors identical), exec_pure, "
             "default_resolver_* (mapping / attribute lookup order), fuel monotonicity and sufficiency (responds: every ranked document gets a response). "
             "Tied by ordered-data / error-multiset correspondence real executor vs model vs Lean spec on generated schemas, valid operations (multi-spread "
             "with conditions, same-key merges under abstract types), worlds and request histories (fresh and REUSED parsed documents)."),
    "technique": "Lean 4 proof (executor model = spec for all ranked documents, bijection, locality) + world-resolver correspondence",
})
CHECKS["C06"].update({
    "text": ("Lean model of the whole validation chain (TypeInfo stacks, ChainedVisitor/SkipNode semantics, all 26 rule visitors, VariablesCollector, "
             "fragment cycle search, field-merge search with its caches) whose rule list must equal SPECIFIED_RULES RE-EXTRACTED from validate.py each run "
             "(rules_match_source); rule_*_iff (the rule is silent exactly when its declarative spec clause holds) for 14 rules: executable definitions, lone "
             "anonymous operation, unique operation / fragment names, known fragment names, unique argument names, unique directives per location, single "
             "field subscriptions, known type names, variables are input types, and the typed ones fields on correct type, scalar leafs, known argument "
             "names, provided required arguments (on top of document_noskip: a non-skipping chain enters/leaves every node exactly once, and the typed walk "
             "silent_iff_typed); for those: verdict_iff_all_partial, attribution_all_partial, perm_definitions/selections/arguments_partial, "
             "alpha_fragments_partial; machine-checked refutations of order-invariance for the UNFIXED collector (V3, V4). The other 12 rules are listed in "
             "Spec.Unproved (proved_all_or_listed). Tied by correspondence (verdict on every document; set of reporting rules on single-violation "
             "documents; every rule standalone; schema and rule-instance histories) and the direct oracle: valid-by-construction => no error, each labelled "
             "single-rule violation => error attributable to that rule, verdict unchanged under the six transformations."),
    "note": ("Trusted: Lean kernel; generators/injectors; is_subtype/types_overlap hand-modelled. The 12 unproved rules and alias/variable renaming rest on "
             "the correspondence + oracle. Known finding V8 (list literal at non-list position accepted)."),
    "technique": "Lean 4 proof (14 of 26 rules, chain walk, invariances) + full-chain model correspondence + labelled-violation/metamorphic oracle",
})
CHECKS["C09"].update({
    "text": ("execute_fields_serially as the code's state machine over the C08 algebra: keys_in_order, failure_does_not_stop, blocking_serial, serial_order "
             "(trace form, every schedule: no resolver of top-level field k+1 starts before everything of field k has finished) with serial_order_tree, all "
             "full. Tied by call/done event traces of the real executors under all completion orders (four configurations, real small pools, fragment-only "
             "mutation roots, nested futures failing at each position) and the direct trace-predicate oracle."),
    "note": "Trusted: Lean kernel; generators.",
})
CHECKS["C11"].update({
    "text": ("Lean model of the SDL builder (collect definitions/extensions, build_*/extend_*, roots, defaults, deprecation, circular-reference guard, "
             "ignore_extensions, additional_types): collect_exact / collect_ok / collect_rejects_*, build_exact_noext and build_exact_partial (documents with "
             "extensions satisfying ValidExt: the built schema is the declared content with each extension's members appended in document order: "
             "extension_merge_exact, extend_*_exact, link_*), build_perm (definitions AND extensions may be permuted, result equal up to order) with "
             "build_perm_roots_noext, build_rejects (every error is a library error or the S1b RecursionError; refutation shows the disjunct is needed); the "
             "unrestricted build_exact is refuted by a decide witness (finding S8), full statements visible. Tied by correspondence of canonical schema "
             "dumps on generated SDL (six kinds, extensions split over blocks, permuted orders incl. extension-before-definition through extend_schema, "
             "labelled defects incl. duplicates among extension-added members) and the direct oracle Declared(doc) / exception class."),
})
CHECKS["C12"].update({
    "text": ("Lean model of ASTSchemaPrinter as schema -> text with the module-level directive-name state threaded explicitly: print_pure (for every history "
             "of calls the k-th output equals the output of that call alone in a fresh state), print_pure_refuted_today_full (text-level 2-call witness of "
             "H1 on a generator state), state lemmas; default_roundtrip / leaf_roundtrip / depr_roundtrip (printed default values and deprecation reasons "
             "read back to the same value; input-object defaults excluded) and arg/field/enum_value/type_to_doc_build (building the printed definition of "
             "a type gives the type back). Model text == real text on every call of random to_string histories; every history also runs in ONE forked child "
             "and every call alone in a fresh child (catches any process-wide hidden state); direct oracles dump(build(to_string(s))) == dump(s), fixpoint, "
             "parser accepts, root names differing only by case."),
    "note": ("Trusted: Lean kernel; generators. to_doc_build is proved per type, not composed over the whole schema (oracle); include_introspection not "
             "modelled. Known findings H2, H3, H5, H6, H8."),
    "technique": "Lean 4 proof (printer purity over call histories, default/type round trip) + exact-text correspondence + fresh-process reference + round-trip oracle",
})
CHECKS["C14"].update({
    "text": ("Object-heap model (identities, shallow copy, heal visitor, clone, transforms, extend, resolver registries) whose code variant flags are "
             "RE-EXTRACTED from schema.py / ast_type_builder.py / schema_from_ast.py each run: clone_closed / transform_closed / heal_closed (every "
             "reference reachable from the result resolves inside the result), clone_frames_source / transform_sequence_frames_source / extend_frames_source "
             "/ extend_sequence_frames_source (the source heap is unchanged, all inputs), clone_intact / transform_intact, transform_owns_result, "
             "healed_registered, busted_accumulates, extend_keeps_type_resolvers_fixed, untouched_preserved_extend_partial (member composition for extend "
             "is the open part), with machine-checked refutations for the legacy variants (T1,T2,T3,S2). Tied by correspondence of the live object graph "
             "(identities canonicalised, registries included) over random clone/transform/extend/register sequences and direct closedness / frame / "
             "preservation oracles."),
    "note": "Trusted: Lean kernel; flag extraction; generators. untouched_preserved for extend is partial (args/members composed per type, not per schema).",
    "technique": "Lean 4 proof over heap model (closedness and frame for clone/transform/extend) + live object-graph correspondence",
})
CHECKS["C20"].update({
    "text": ("Lean theorems about the safe-change predicates TRANSLATED from differ/__init__.py on every run (safeIn_iff: exact for all type expressions; "
             "safeOut_iff_partial + machine-checked refutation of the full statement = finding G1; safeOut_base / safeIn_base) and about the severity table "
             "EXTRACTED from changes.py. diff_schema itself is modelled in Lean (Diff.lean, root operation types included) with: diff_refl (all schemas "
             "with unique names), diff_perm / diff_perm_count / no_breaking_perm (permuting the type and directive definitions of either schema permutes "
             "the report: same multiset of changes at every filter), one *_reported theorem for EVERY elementary edit of the property's list (types, kinds, "
             "root types, fields, arguments, input fields, enum values, union members, interface implementations, directives, locations, defaults, "
             "deprecations: the unfiltered report contains the change of the expected class naming the element; reported_at_severity lifts to every "
             "filter not above the class severity), min_severity_filters, nobreaking_args_permissive (semantic, full), nobreaking_fields_strict_partial "
             "(list-free types; G1), the schema-shape facts nobreaking_types_kept / kinds_kept / fields_kept / arguments_kept / "
             "no_new_required_argument / enum_values_kept / union_members_kept / input_fields / kindOf / fieldOf / rootType, and the headline "
             "operations_stay_valid: no BREAKING change reported => every document that is ValidDoc (the declarative validity predicate of C05's "
             "soundness theorem) on the old schema is ValidDoc on the new one, for all documents and variables. Tied by exhaustive comparison of the "
             "real predicates with the compiled model on all type pairs of depth<=3/4, comparison of the real diff_schema with the Lean model on every "
             "generated schema pair (multiset of class, severity, identifying attributes), and a schema-level oracle (generated schema + elementary edit + "
             "reverse edit, 20 edit kinds incl. root types; definition permutations; code-built enums; diff/clone/transform/in-place-visitor histories; "
             "schemas derived by argument-renaming/dropping transforms vs the same schema rebuilt from its SDL; repeated diffs on the same objects)."),
    "note": ("Trusted: Lean kernel; py2lean translator; reference semantics of type expressions on abstract values (accepts); generators. diff_schema's "
             "traversal is hand-modelled and tied by correspondence (not re-translated). operations_stay_valid speaks about selection-level validity "
             "(ValidDoc: fields, leaves, type conditions, fragments, roots); argument- and variable-level validity is covered by the shape theorems "
             "(arguments kept, no new required argument, input positions at least as permissive) and by sampled valid operations re-validated on the new "
             "schema. Known finding G1; G2 (root types never compared) was repaired in /repo."),
    "technique": "Lean 4 proof (translated predicates, diff model: reflexivity, order independence, every edit reported, operations stay valid) + exhaustive small-scope correspondence + edit oracle",
})


# ---------------------------------------------------------------------------------------------------------------
# Second set of final-state texts (state after rounds 3-4 of seeding, the neutral round and the last proof phases).
# ---------------------------------------------------------------------------------------------------------------
CHECKS["C01"]["text"] = CHECKS["C01"]["text"].replace(
    "compose lexer and parser at TEXT level;",
    "compose lexer and parser at TEXT level; parse_error_in_range / parse_text_error_in_range_partial (every error position the parser reports is "
    "within the text; L6 is the only excluded case) with parse_text_render_total and parse_error_index_to_loc_total; viable_prefix_refuted records "
    "that error positions are NOT always the end of the longest viable prefix (`extend scalar A`);")
CHECKS["C03"].update({
    "note": ("Trusted: Lean kernel; generators. The text-level statements print_parse_modulo_members / print_stable / print_parse_exact quantify over every "
             "text the lexer and parser models accept (parser_output_ok discharges the bridge). Known finding R4 (member descriptions dropped by the AST "
             "printer) is why the round trip is 'modulo members'."),
})
CHECKS["C03"]["text"] = CHECKS["C03"]["text"].replace(
    "print_parse_document_exact when there are none,",
    "print_parse_document_exact when there are none, and at TEXT level print_parse_modulo_members / print_parse_exact / print_stable (for every text the "
    "lexer and parser accept, every indent over space/tab, every flag combination: printing the parsed tree and parsing the printed text gives the tree "
    "back without member descriptions; parser_output_ok proves the bridge from parser output to the printer's well-formedness conditions),")
CHECKS["C04"].update({
    "text": ("Lean model of collect_fields (with the _seen_fragments quirk), _skip_selection (a condition that cannot be evaluated is a CoercionError caught at "
             "the enclosing selection set: catchDirective), _fragment_type_applies, execute_fields, resolve_field (argument coercion by C07's model inside the "
             "executor: ExecArgs.lean; completion failures caught as field errors: catchField), complete_value (lists that raise while iterated, resolve_type "
             "that raises), default_resolver, serialisation and the error accumulator, and the spec's CollectFields/ExecuteSelectionSet/CompleteValue: "
             "exec_refines_spec (for every ranked document whose directive conditions are evaluable the executor model's response equals the spec's; "
             "exec_refines_spec_spreadfree_exact without that premise), acyclic_rankedB / exec_refines_spec_acyclic (acyclic + unique fragment names => "
             "ranked: no per-document certificate needed; acyclic_needs_unique_names witness), responds (every such document gets a response), "
             "null_error_bijection (no two errors share a path; every error sits at or below a null), list_interrupted_keeps_errors, "
             "completion_error_is_field_error, root_failure_single_error, argument_coercion_failure_is_field_error / "
             "argument_coercion_success_reaches_resolver, exec_world_congr / siblings_undisturbed_world, history_independent / kth_response / "
             "serveAll_docs_unchanged / memo_sound / memo_across_requests_unsound (what may persist between requests), default_resolver_*, skip_include*, "
             "alias_merge, keys_document_order, abstract_possible_type. Tied by ordered-data / error-multiset correspondence real executor vs model vs Lean "
             "spec on generated schemas, valid operations (multi-spread with conditions, same-key merges under abstract types, divergent argument defaults "
             "per implementation, null-bound directive variables), worlds (dicts, one Python class for all members of an abstract type, lazy iterables and "
             "resolve_type that raise) and request histories (fresh and REUSED parsed documents, document unchanged afterwards)."),
    "note": ("Trusted: Lean kernel; generators; 'the Document is never written' and 'one executor per request' are tied to the code by the to_dict() before/after "
             "oracle and the history streams; `__schema`/`__type` are C15's model. exec_refines_spec with named spreads AND a failing directive condition rests "
             "on the correspondence (the collect simulation covers the ok outcome)."),
    "technique": "Lean 4 proof (executor model = spec, acyclic => responds, bijection, locality, history independence) + world-resolver correspondence",
})
CHECKS["C05"].update({
    "text": ("validated_no_internal_error (full): under SchemaOk, the declarative ValidDoc (fields exist, leaf <=> no sub-selection, type conditions composite, "
             "spreads defined, fragments well-typed, acyclic and uniquely named, roots exist), MergeSafe (the declarative form of OverlappingFieldsCanBeMerged: "
             "same-key fields whose parent types can overlap have the same name and arguments, recursively; mergeSafeB_sound gives a sound evaluator) and a "
             "typed world (raising iterables and resolve_types included) no request ends in an internal exception, for EVERY variable assignment (a failing "
             "@skip/@include condition is a field error since fix D1: noInt_catchDirective); validated_shape / validated_shape_field; the bridge "
             "rules_accept_validDoc / rules_accept_cannot_go_wrong from the C06 rule models (rule_*_iff theorems) to ValidDoc, with RuntimeTie naming exactly "
             "what still rests on the run-time tie (roots, no __schema/__type selections, acyclicity certificate); witnesses that MergeSafe is strictly weaker "
             "than the old KeyConsistent premise on validator-accepted documents. Tied by an adversarial stream of invalid/mutated documents: validate_ast must "
             "return; accepted => ValidDoc and MergeSafe (Lean-evaluated) and execution under typed worlds raises no internal exception, has the schema shape and "
             "one unambiguous value per response key."),
    "note": ("Trusted: Lean kernel; generators. `__schema`/`__type` selections are outside this executor model (C15). The 26 rules themselves belong to C06. "
             "Repaired on the way: V1, V2, V7, D1 (directive condition null at run time), E1."),
    "technique": "Lean 4 proof (type soundness of the executor model under the validator's guarantees) + adversarial validate/execute oracle",
})
CHECKS["C06"].update({
    "text": ("Lean model of the whole validation chain (TypeInfo stacks, ChainedVisitor/SkipNode semantics, all 26 rule visitors, VariablesCollector, fragment "
             "cycle search, field-merge search with its caches) whose rule list must equal SPECIFIED_RULES RE-EXTRACTED from validate.py each run "
             "(rules_match_source). EVERY one of the 26 rules has a rule_*_iff theorem: the rule, run through the model's chain on any document and schema, is "
             "silent exactly when its declarative clause holds (ProvedAll = Rule.all, Spec.Unproved = []); the clauses state what the CODE implements, with "
             "machine-checked refutations where that is not the specification's clause (values_spec_clause_refuted = V8, overlap_full_statement_refuted, "
             "V3/V4 order dependence of the unfixed collector). Side conditions: the variable rules and the overlap rule are stated for the fixed code variant "
             "(HeadVars fx, checked against the tree on every run); OverlappingFieldsCanBeMerged additionally needs OverlapHyps (ParentsAgree, no fragment named "
             "\"\", the ssid==fid shortcut not taken, NoCrash = no RecursionError) which every parsed acyclic document satisfies but which are not derived from "
             "'all rules silent', hence accepted_spec_valid_all_partial; spec_valid_accepted_all (valid by all 26 clauses => no rule reports) is unconditional. "
             "Invariance: perm_definitions_all_partial, perm_selections / perm_arguments / alpha_fragments for 19 rules (tr_invariance_all_partial). Tied by "
             "correspondence (verdict on every document; set of reporting rules on single-violation documents; every rule standalone; schema and rule-instance "
             "histories; derived schemas) and the direct oracle: valid-by-construction => no error, each labelled single-rule violation => error attributable "
             "to that rule, verdict unchanged under the six transformations."),
    "note": ("Trusted: Lean kernel; generators/injectors; is_subtype/types_overlap hand-modelled. Known finding V8 (list literal at non-list position accepted). "
             "Invariance under the transformations is not transported for the variable, values, cycle, spread and overlap clauses (oracle only)."),
    "technique": "Lean 4 proof (all 26 rules: model silent <=> declarative clause; chain walk; invariances) + full-chain model correspondence + labelled-violation/metamorphic oracle",
})
CHECKS["C07"].update({
    "text": ("Lean model of coerce_value / value_from_ast / coerce_variable_values / coerce_argument_values / scalar parsers with the Int branches, the Float "
             "finiteness guard and the overflow handling RE-EXTRACTED / TRANSLATED from scalars.py each run (coerceInt_branches_spec) and a Lean model of "
             "Python's int()/float() lexemes (PyNum.lean: no harness-observed annotations remain): variable_sound, literal_sound, variables_sound, "
             "arguments_sound (=> Conforms), int_accepts_iff / float_accepts_iff (exactly which JSON inputs are accepted; inf, nan and too-large integers are "
             "REJECTED, never raised: fix A6), literal_variable_equiv (same outcome on both routes; custom scalars as arbitrary parser parameters under "
             "CustomAgree), omission/wrapping/rejection theorems, fuel-free restatements, coerce_value_never_raises / builtin_scalars_never_raise / "
             "variables_never_raise (any JSON value ends in a value or a rejection), the bridge validated_arguments_sound and the TRACE theorems over whole "
             "response trees (every_call_conforms_tree, rejected_field_is_local, no_resolver_call_on_rejected_variables_tree, "
             "every_validated_call_conforms_tree). Tied by correspondence on all type expressions x literals x JSON values x provided/omitted/null, an extremes "
             "stream (inf, nan, 10^400, containers nested to 20 000 levels: fix A7), a pynum stream against the real builtins, and the calls recording resolvers "
             "actually see (order and kwargs; divergent interface implementations sharing one field node; DERIVED schemas must hand resolvers the same internal "
             "enum values and defaults)."),
    "note": ("Trusted: Lean kernel; translator; CustomNeverRaises / CustomAgree are hypotheses about user-supplied scalar parsers; repr(float) as wire spelling. "
             "Nested lists of lists in the trace model and non-ASCII digits in lexemes are exercised, not modelled."),
})
CHECKS["C08"]["note"] = ("Trusted: Lean kernel; generators; asyncio task scheduling is only exercised. Known finding E2 (a completion that raises AFTER sub-resolvers "
                         "of the same field were started abandons them). Parallel interleaving of callback bodies on worker threads is modelled for "
                         "gather_futures' counter only (RuntimeRace.lean: LOAD / STORE / TEST micro-steps, finding E2r); other callback bodies are atomic in the model. Hang verdicts are progress-based and confirmed by a second isolated run.")
CHECKS["C09"]["note"] = "Trusted: Lean kernel; generators. Known finding E2 (see C08) also shows as a serial-order violation when a completion raises after its sub-resolvers started."
CHECKS["C10"].update({
    "text": ("Lean theorems about the hand model of index_to_loc / to_dict of every error class / GraphQLResult.response / the staged process_graphql_query / the "
             "executors' error capture: loc_bounds (all texts, all positions, LF/CR/CRLF), index_to_loc_total_iff, data_omitted_iff, null_error_bijection, "
             "request_bijection with root_failure_bijection / root_failure_wellformed (the root selection set cannot be collected: data null, one error without "
             "path), null_sites_nodup, null_sites_are_null, exactly_one_error_per_site, result_wellformed, executed_response_wellformed, "
             "response_wellformed_partial (+ refutation of the full statement: the misspelt `columne` key, finding X1); response keys and the data=None flags of "
             "the _abort calls are re-extracted from source each run (static shape first, DYNAMIC enumeration of the finite domain of error objects / abort "
             "sites when the shape is not recognised; the route is recorded in the evidence); tied by stage-outcome correspondence and a direct WellFormed + "
             "site/error multiset oracle on four configurations x four submission forms (text, parsed document, parsed without locations, hand-built without "
             "source) incl. execution-time argument coercion failures under lists, completion-time ResolverErrors, run-time directive failures, numeric "
             "extremes, hostile text in every string that reaches an error message, and shared error instances."),
})
CHECKS["C11"].update({
    "text": ("Lean model of the SDL builder (collect definitions/extensions, build_*/extend_*, roots, defaults, deprecation, circular-reference guard, "
             "ignore_extensions, additional_types): collect_exact / collect_ok / collect_rejects_*, build_exact_noext, build_exact_partial and "
             "build_exact_of_defaultsAgree (ValidDoc doc d => build doc = ok d, where the only semantic premise left is DefaultsAgree: every default literal "
             "coerces the same over the definitions alone and over the merged definitions; s8_not_defaultsAgree shows finding S8 is exactly its negation), "
             "extension_merge_exact, extend_*_exact, link_*, build_perm (definitions AND extensions may be permuted), build_rejects (every error is a library "
             "error or the S1b RecursionError). Tied by correspondence of canonical schema dumps on generated SDL (six kinds, extensions split over blocks, "
             "permuted orders incl. extension-before-definition through extend_schema, names differing only by case, non-root types named like roots, exotic "
             "strings), labelled defects incl. every schema-validation rule expressible in SDL with validation ENABLED, and the direct oracle Declared(doc) / "
             "exception class."),
})
CHECKS["C12"].update({
    "text": ("Lean model of ASTSchemaPrinter as schema -> text with the module-level directive-name state threaded explicitly: print_pure (for every history of "
             "calls the k-th output equals the output of that call alone in a fresh state; refutation for the legacy state), print_build_roundtrip "
             "(printBuildWF s => build (schemaToDoc s) = ok s: the document the printed SDL denotes builds back to the schema; the well-formedness predicate "
             "names each excluded shape: H2 input-object defaults with defaulted fields, H3 float-like custom scalar strings, H5 empty descriptions, H6 empty "
             "deprecation reasons, H8 non-finite floats; witnesses that ordinary schemas satisfy it and that H2 must be excluded), default_roundtrip_doc (every "
             "canonical default of any input type reads back), and at TEXT level print_schema_text_parses (a second, total model printSchemaT of the printer: "
             "for every schema with printTextWF the printed text lexes and parses to the tree of the printed document, all six kinds, both argument layouts, "
             "all three description layouts, defaults, any space/tab indent, any definition order) composed into text_roundtrip (the printed TEXT parses to a "
             "document that builds to the schema). Both printer models are compared with the real printer's exact text on every run; every history also runs in "
             "ONE forked child and every call alone in a fresh child; direct oracles dump(build(to_string(s))) == dump(s), fixpoint, parser accepts, root names "
             "differing only by case, non-root types named Query/Mutation/Subscription (fix H9), exotic strings, look-alike numeric ID defaults (fix H11)."),
    "note": ("Trusted: Lean kernel; generators. include_custom_schema_directives=True and include_introspection are not in the text-level theorem; "
             "printBuildWF (printOrder s) is a hypothesis of text_roundtrip. Known findings H2, H3, H5, H6, H8."),
    "technique": "Lean 4 proof (printer purity, document- and text-level round trip) + exact-text correspondence of two printer models + fresh-process reference + round-trip oracle",
})
CHECKS["C14"].update({
    "text": ("Object-heap model (identities, shallow copy, heal visitor, clone, transforms, extend, resolver registries as heap objects) whose code variant flags are "
             "RE-EXTRACTED from schema.py / ast_type_builder.py / schema_from_ast.py each run: clone_closed / transform_closed / heal_closed, "
             "clone_frames_source / transform_sequence_frames_source / extend_frames_source / extend_sequence_frames_source (the source heap is unchanged), "
             "clone_frames_source_registries / clone_keeps_source_digest (registering on a clone never writes the source's registries; refutation for the "
             "shallow-copy variant), untouched_preserved_extend (+ _protected, _directives, _schema_level: everything the extension document does not name is "
             "preserved, per schema, for all inputs), visibility_hides_type / visibility_hides_type_transform (hidden names leave the registry and, by "
             "closedness, every reference), visitor_keeps_existing_objects, transform_preserves_untouched (type level, any list of visibility / camel-case / "
             "heal visitors through the clone), camel_case_field_kept / camel_case_argument_kept, clone_intact / transform_intact, transform_owns_result, "
             "with machine-checked refutations for the legacy variants (T1,T2,T3,S2). Tied by correspondence of the live object graph (identities "
             "canonicalised, registries included) over random clone/transform/extend/register sequences on schemas with rare-but-valid names, and direct "
             "closedness / frame / preservation oracles."),
    "note": ("Trusted: Lean kernel; flag extraction; generators. Field- and argument-level preservation through clone-based transforms is proved for in-place "
             "visitors and the camel-case hooks, not composed per schema. Repaired on the way: S2, T1-T4, U1."),
    "technique": "Lean 4 proof over heap model (closedness, frame and preservation for clone/transform/extend, registries) + live object-graph correspondence",
})
CHECKS["C15"]["note"] = ("Trusted: Lean kernel; translator; generators; `_resolve_type_kind` and the meta-field table of field_definition are extracted statically or, when "
                         "the shape is not recognised, by running the real code on their finite domains (route recorded in the evidence). asyncio/thread-pool runs only "
                         "exercised by the Python oracle. Known finding I1 (residual: control characters in plain string defaults). Repaired: I1 (rest), I2, I3.")
CHECKS["C19"].update({
    "text": ("Model of collect_fields_untyped / selected_fields / MaxDepthValidationRule (per-operation variable coercion, fallback to the raw request variables "
             "when they do not coerce) and an independent depth specification: flags_iff(_v), flags_iff_validated (no computed check, no fuel: unique fragment "
             "names + declarative acyclicity + bound variables), flags_uncoercible / flags_iff_raw (an operation whose variables do not coerce is still measured, "
             "by the truthiness of the raw values), pipeline_rejects_iff / pipeline_rejects_iff_raw (the request is rejected with a depth error iff the depth of "
             "a selected operation exceeds n, all n >= 0 incl. 0, all operation_name filters, any default-validator outcome), no_raise(_v), name_filter, "
             "wrap_inline_ge, wrap_spread_ge, acyclic_iff_Acyclic, depth_fuel_irrelevant, measured_eq_depth, selected_fields_exact (listed paths = selected "
             "paths within maxdepth matching the pattern); decide refutations for the original rule and the original selected_fields. Tied by correspondence "
             "(error set, raises, listed paths) and the direct oracles on exhaustive small distributions over fragments, raw JSON variable assignments, "
             "repeated calls on the same rule instance and Document, also through graphql_blocking with validators."),
    "note": ("Trusted: Lean kernel; generators. Known finding Q1-vars2: when the variable a directive needs is unavailable in the mapping the rule falls back to, "
             "CoercionError escapes the rule (also for a valid request executing another operation of the document); the theorems carry that availability "
             "hypothesis (ValidDeclR) and unavailable_directive_variable_raises witnesses the boundary."),
})


# ---------------------------------------------------------------------------------------------------------------
# Addenda of the two bug-hunt rounds (appended to the texts above; obligation names are appended by manifest_gen.py).
# ---------------------------------------------------------------------------------------------------------------
def _add(k, text=None, note=None):
    if text:
        CHECKS[k]["text"] = CHECKS[k]["text"].rstrip() + " ADDED IN THE BUG-HUNT ROUNDS: " + text
    if note:
        CHECKS[k]["note"] = CHECKS[k].get("note", "").rstrip() + " " + note


CHECKS["C11"]["text"] = CHECKS["C11"]["text"].replace("build_exact_of_defaultsAgree", "build_exact_of_baseDefaults").replace(
    "where the only semantic premise left is DefaultsAgree", "where the semantic premises left are BaseDefaults / SelfDefaults (formerly DefaultsAgree)")
_add("C01", "number_lookahead_pinned and june2018_glued_number_refuted (the pinned look-ahead restriction LA1 is isolated as an explicit clause of the "
            "lexical spec), model instances for the block-less-definition ambiguity (LA2: the grammar spec takes the greedy reading, `nla .curlyL`), an "
            "invalid-UTF-8 bytes oracle over all entry points (decoding is outside the Lean model: stated).",
     "Known findings LA1, LA2 (June-2018 readings pinned by the suite / needing backtracking). Repaired: B8 (UnicodeDecodeError for invalid UTF-8 bytes).")
_add("C02", "paired surrogate escapes in model, spec (pairedUnits / stringCharacters) and escape_spec_sound/complete after fix U1; JSON-decoding reference "
            "oracle for escapes; literal-reading oracle for the Document span.",
     "Known finding P5 (Document span includes surrounding ignored text; pinned by 15 tests). Repaired: U1.")
_add("C03", "print_deep_list / print_deep_list_type (the model printer is total at every nesting depth), a deep-nesting stream per recursive position with "
            "measured boundaries in the evidence.",
     "Known findings R7 (print_ast raises RecursionError on deeply nested documents the parser accepts; nine positions).")
_add("C04", "worlds whose resolvers mutate their list / dict arguments (per-execution marks: ArgumentSharedBetweenExecutions, ArgumentLeakedFromEarlierRequest), "
            "resolvers calling info.selected_fields(), type resolvers returning type OBJECTS (own schema and clone), argument names colliding with the "
            "resolver protocol, deep-nesting probe for the generic executor.",
     "Known finding H4 (generic Executor RecursionError from depth 77 through [T!]!). Repaired: H2 (defaults handed out uncopied), H5 (argument values shared "
     "between executions), H6 (arguments named root/context/info).")
_add("C05", "rules_accept_responds, bridge_field_args, bridge_rejected_argument (the bridge carries argument tables computed by the C07 model), "
            "fragsAcyclic_of_noCycles, fragment-cycle-behind-entry documents, flat fragment-chain probe.",
     "Known finding H2 (RecursionError on a flat chain of about 975 fragments). Repaired: H1 (selected_fields strictness), overlap memo (RecursionError on a "
     "cycle through a field's sub-selection).")
_add("C06", "headline theorems are verdict_iff_all, verdict_iff_all_std, accepted_spec_valid_all, attribution_all (Props/C06_head.lean) and "
            "spec_valid_accepted_all; the chain model follows the repaired SkipNode semantics (every member enters, the entered are left in reverse): "
            "typeinfo_balanced / selections_balanced / definitions_balanced for EVERY rule list, skip_reports (a rule that skips has just added an error, all 26 "
            "rules), monoAlg, silent_run_document_not_skipped; list-item type information (TI.itemOf, Props/C06_list_items.lean) after the enter_list_value "
            "repair; the single-root-field clause is the specification's CollectFields restricted to keys (rule_single_field_subscriptions_iff re-proved; the "
            "invariance theorems now exclude that one rule: 24 rules); overlap_memo_terminates / within_memo_terminates (the memoised overlap search terminates on "
            "EVERY document, cyclic fragment graphs included, with an explicit fuel bound) — the verdict theorems still concern the un-memoised search (stated).",
     "Repaired in these rounds: H3 (__typename in the response-shape check), enter_list_value (C06/1, C06/2, C07/1), H5 (silent SkipNode at custom scalars), "
     "H6 (single root field through fragments), W2b/W3b/W8 (visitor). Variable-definition directives and fragment variable definitions are corpus- and "
     "injector-tested against the real code only (model-does-not-cover, counted).")
_add("C07", "litAdmitted / customHasParseLiteral with the guard re-extracted from value_from_ast (scalarLiteralGuard_spec), untypedLiteral (the stand-in "
            "scalar's parse_literal), defaultScalarParse_spec (non-finite values refused at any depth, re-extracted), coerceInt_branches_spec after the bool "
            "repair, nested-variable stream through the full entry point.",
     "Known findings A9 (omitted variable inside an object / list literal; pinned), A10 (the stand-in scalar keeps number literals as text: inline differs from "
     "variable; witness not CustomAgree). Repaired: E1 (enum reverse map), B1 (bool as Int).")
_add("C08", "named probes run first in every run: generator history (isawaitable cache), request-aborting classes per configuration, odd exception classes "
            "(StopIteration, StopAsyncIteration, BaseException) under all schedules with a confirmed watchdog, deep nesting per runtime, abort order.",
     "Known findings H5 / H5b (deep nesting: thread pool never completes from 60 levels, generic executor RecursionError from 80), H6 (which of two "
     "request-aborting siblings is reported depends on completion order). Repaired: H1, H3, H4.")
_add("C09", "interleaving_stage: line-level interleavings of the chain callback against _next on a real one-worker pool, driven by a tracing hook "
            "(library untouched), each failure confirmed by re-run.",
     "Repaired: H1 (race in the serial chain introduced by an earlier repair).")
_add("C10", "per-request worlds (context_value), late-workers stream and the self-check harness:foreign-world-record, non-string error messages, "
            "non-finite values at custom-scalar positions (variables and results), extensions outside the documented contract counted separately.",
     "Repaired: H1 (non-string messages), H2 (non-finite through the stand-in scalar).")
_add("C12", "custom_structured_roundtrip (structured custom-scalar defaults print and read back), h12_width_boundary (the text-level theorems assume lines "
            "of at most 120 - indent characters: a longer description line is re-wrapped, finding H12).",
     "Known findings H12, C12/1, C12/5, C12/6, C12/7 (see known_findings.json).")
_add("C13", "cache_tracks_assignments (plain assignment of resolvers at the four places, Op.assignResolver in the cache machine), signature_of_the_callable "
            "(the callable the executor calls is judged: follow_wrapped=False re-extracted), wrapped / partial / bound / callable-instance resolver forms.",
     "Repaired: H1-H9, HH1, HH2.")
_add("C14", "class tags of leaf types through extension (extend_keeps_leaf_class), type resolvers returning objects of the source schema, schema directives "
            "applied by extensions only to what the extension wrote, inline directive definitions registered, defaults re-evaluated after extensions.",
     "Known findings T13, T14 (a default mentioning an enum value / input field that a transform removed), T15-residue. Repaired: T6-T12, T15.")
_add("C15", "strict_string_stays_string (litOfStrict: what introspection reports for custom-scalar strings), meta_below_non_query_not_a_field, "
            "typename_everywhere, oracle for defaults without a literal form (a field error at that defaultValue, everything else reported).",
     "Known finding I10 (@deprecated(reason: null) built as not deprecated). Repaired: I7, I8, I9, I11, I12.")
_add("C16", "slow / abort block (request-aborting sibling x slow sibling x runtime x executor), every field hook inside the execution stage.",
     "Known findings N3 (stages left open when processing RAISES), N4 (thread pool: end hook of a sibling in flight fires after on_execution_end; asyncio: "
     "never-awaited sibling of a synchronous abort). Repaired: H1, H2, H3.")
_add("C17", "refusals_uncomputable (unevaluable root directive / uncoercible argument: ExecutionError before the resolver), refused_before_variables "
            "(operation selection, kind, runtime, variables: in that order), request-aborting events as results, meta root fields, sources with a "
            "setting-up __aiter__, resolvers mutating list arguments across events.",
     "Repaired: H1-H8.")
_add("C18", "chained_order_personal / chained_skip_personal (repaired SkipNode semantics, observed flag chainPersonalSkip), model_total / "
            "visit_never_out_of_fuel (the model traversal is total at every depth), deep-nesting stream with measured boundaries.",
     "Known finding W9 (RecursionError, enters without leaves, on deeply nested documents the parser accepts). Repaired: W2b, W3b, W7, W8.")
_add("C19", "the leniency of selected_fields is re-extracted (lenientSelectedFields): selectedFields_sim, selected_fields_exact_lenient, "
            "selected_fields_lenient_eq_strict; flags_iff_final (exact depth for acyclic documents, no bound), unbounded_only_if_invalid, "
            "cyclic_repaired_reports, deep acyclic chain probe up to depth 3000.",
     "Repaired: Q2 (RecursionError on fragment cycles, exponential time), Q3 (deep acyclic documents reported unbounded).")
_add("C20", "compatible retypings are reported (compatibleRetypeSeverity re-extracted from _compatible): compatibly_retyped_*_reported and any_retyped_*_reported "
            "for fields, arguments, input fields and directive arguments; ordered reports under five PYTHONHASHSEED values in fresh interpreters; code-built "
            "schemas against the schema built from their own SDL; defaults enter the model as GraphQL values of their position (gql_canon_default, independent "
            "of the library's printer).",
     "Known findings G1, G4 (pinned). Repaired: G2, G3, G5, Python-equal defaults, subclass kinds, hash-dependent order, defaults as GraphQL values.")


# --- extension round `ex` (C04 / C05): narrative brought in line with the tree ---
def _sub(k, field, old, new):
    assert old in CHECKS[k][field], (k, field, old[:40])
    CHECKS[k][field] = CHECKS[k][field].replace(old, new)


_sub("C04", "text",
     "exec_refines_spec (for every ranked document whose directive conditions are evaluable the executor model's response equals the spec's; "
     "exec_refines_spec_spreadfree_exact without that premise)",
     "exec_refines_spec (for EVERY ranked document - named spreads and directive conditions that cannot be evaluated included: "
     "collect_refines_spec / collect_refines_spec_fail - the executor model's response is the spec's: same ordered data, errors equal one by one on path "
     "and kind, locations up to repeats; exec_refines_spec_spreadfree_exact: exact equality without named spreads; the only hypothesis, Ranked, follows "
     "from validation: C05's rules_accept_ranked / rules_accept_refines_spec need three silent fragment rules)")
_sub("C04", "note",
     " exec_refines_spec with named spreads AND a failing directive condition rests "
     "on the correspondence (the collect simulation covers the ok outcome).", "")
CHECKS["C04"]["text"] = CHECKS["C04"]["text"].rstrip() + (
    " ADDED IN THE EXTENSION ROUND: memo_by_leading_node_unsound (a sub-selection memo keyed by the leading node is not transparent: witness of seeded "
    "C04-11 / C05-12); a DETERMINISTIC block (corr/C04_runtimes.py, no randomness) runs fixed requests through graphql_blocking, process_graphql_query "
    "(generic Executor) and py_gql.graphql on an asyncio loop whose coroutine resolvers complete in reverse / mixed / hashed order, each compared with the "
    "specification (ordered data, error multiset); generated classes leading-node and same-key-groups (gen/leading_node.py: one field node heading two "
    "different merged node lists, several merged groups of one type in sequence) on a fixed schema and on every generated schema, under fixed worlds.")
CHECKS["C04"]["note"] = CHECKS["C04"]["note"].rstrip() + (
    " The asyncio slice makes completion order a function of the request with `await asyncio.sleep(0)` (all completion orders, thread pools: C08). "
    "TypesWf (null_error_bijection) follows from the computable typesWfB the driver evaluates (C05's typesWf_of_check).")

_sub("C05", "text", "uniquely named, roots exist), MergeSafe", "uniquely named), MergeSafe")
_sub("C05", "text",
     "with RuntimeTie naming exactly "
     "what still rests on the run-time tie (roots, no __schema/__type selections, acyclicity certificate)",
     "with RuntimeTie naming what rested on the run-time tie")
CHECKS["C05"]["text"] = CHECKS["C05"]["text"].rstrip() + (
    " ADDED IN THE EXTENSION ROUND: the chain is restated from what `validate_ast(...) == []` really gives. ValidDocR drops the clause 'the operation has a "
    "root type' (the validator does not check it: `mutation { a }` is accepted on a schema without a mutation type and execution answers a non-internal "
    "error): validated_no_internal_error_rootless (validated_no_internal_error is its corollary), rules_accept_validDocR, "
    "rules_accept_cannot_go_wrong_rootless; accepted_cannot_go_wrong has the premise 'all 26 rule visitors silent'; the schema hypotheses SchemaOk / SchemaWf / "
    "RootsAreObjects / TypesWf follow from computable checks (Spec/SchemaChecks.lean; schemaOk_of_checks, rootsAreObjects_of_check, schemaWf_of_checks, "
    "typesWf_of_check, accepted_cannot_go_wrong_checked) which the driver evaluates on the schema of every request; the executor model reads the schema "
    "only through six accessors, each invariant under listing the built-in scalars (Lemmas/C05Builtins.lean, execute_congr), so "
    "accepted_cannot_go_wrong_executed speaks about the description the driver executes (execute_lists_builtins, worldTyped_withBuiltins); "
    "rules_accept_ranked / rules_accept_refines_spec hand C04's refinement theorem its only hypothesis. Deterministic classes under FIXED worlds: "
    "divergent-args, leading-node / same-key-groups (gen/leading_node.py), exclusive-then-strict (gen/overlap_memo.py: a (selection set, fragment) pair "
    "compared first under exclusive parents, then strictly), rootless operations, scale probes at depth 50 (must pass) and 200.")
CHECKS["C05"]["note"] = CHECKS["C05"]["note"].rstrip() + (
    " Still hypotheses of the chain: MergeSafe (declarative overlap rule on the executor's document; evaluated by the driver on every accepted document, "
    "NOT yet derived from the silent OverlappingFieldsCanBeMerged visitor), NoIntrospection, non-empty fragment names (parser), WorldTyped (part of the "
    "statement). Known findings H13a (validate_ast RecursionError from ~150 nesting levels of selection sets / ~200 of input object literals), H13b (generic "
    "Executor RecursionError on a 200-fragment field-nested chain that validates).")


def _add_rt(k, text=None, note=None):
    if text:
        CHECKS[k]["text"] = CHECKS[k]["text"].rstrip() + " ADDED IN THE RUNTIME ROUND: " + text
    if note:
        CHECKS[k]["note"] = CHECKS[k].get("note", "").rstrip() + " " + note


_add_rt("C08", "RuntimeRace.lean splits gather_futures.on_finish into the micro-steps LOAD / STORE / TEST of `done += 1` ... `if done == target_count` run "
               "by n workers under any interleaving: gather_nonatomic_lost_update(_3, _preempted) and gather_terminates_nonatomic_refuted (a lost update "
               "leaves the aggregate Future unset although every callback returned), gather_atomic_sets_outer and gather_locked_sets_outer (atomic increment, "
               "or the non-atomic steps under a lock from LOAD to STORE: for every n > 0 and EVERY interleaving the aggregate is set exactly once and no "
               "update is lost). probe_gather_lost_update replays the witness schedule on the REAL gather_futures (opcode tracer + second thread, preemption "
               "forced between LOAD_DEREF and STORE_DEREF). Every wait of the harness on the code under test is bounded: a deterministic deadlock detector in "
               "the single-threaded manual-executor worlds (a Future.result() on a pending future there can never return), SIGALRM watchdogs around "
               "process_graphql_query itself on real pools, a per-stage wall-clock backstop (never-completes:stage:<name>), blocked pool workers detached at exit.",
        "Known finding E2r (the lost update, latent under the CPython 3.12 GIL; proposed_fixes/C08-gather-counter-lock.patch is offered). async_eq_blocking has "
        "no completeness hypothesis on the schedule (it speaks about whatever schedule produced a result). Abstract types, lazy iterables and completion-time "
        "ResolverErrors after sub-resolvers started (E2) are outside the Lean executor model (exercised, oracle only).")
_add_rt("C09", "the `args` queue as an invariant over ALL steps of EVERY schedule (Lemmas/ExecSerialOrder.lean): serial_queue_invariant (top-level "
               "invocations so far ++ queue = document order while the serial callback is waiting; a prefix once it finished or failed), "
               "top_calls_in_document_order, jth_call_is_jth_field, no_later_call_before_earlier_done (at each top-level call: everything invoked before has "
               "finished AND it is exactly the next field in document order), serial_queue_head_called_next (one step: `_next` first invokes the head of the "
               "queue), failure cases nonnull_violation_at_root_continues and unexpected_stops_later_fields (sync: propagates out of `_next`; deferred: the "
               "chain fails; no later top-level resolver runs).",
        "The model's `_next` is the recursive form; the loop + lock of today's execute_fields_serially is tied to it by the trace correspondence and the "
        "interleaving stage only.")
_add_rt("C16", "named probe default-resolved-deferred-list (lists of 2-3 objects whose DEFAULT-resolved field holds a Future / awaitable / async method, no "
               "middleware, thread pool and asyncio, every completion order, hook paths copied at hook time; oracle: one start and one end per path); the "
               "manual-pool runs are under the deterministic deadlock detector.",
        "The per-(type, nodes) sharing of one ResolveInfo between list items (seeded C16-11) is covered by that probe only, not by the Lean trace model.")
_add_rt("C17", "fault sequences (SubscribeFaults.lean): the SOURCE raising from __anext__ mid-stream, events whose processing raises an unexpected exception "
               "(their partial errors stay in the shared executor), a consumer that reads on: faults_do_not_leak (what the consumer sees equals the "
               "state-free specification: every surviving event executed on a fresh executor, source errors consume no event index), one_pull_per_item, "
               "async_for_stops_at_first_fault (results of the prefix, |prefix|+1 source pulls, nothing behind the fault consumed), "
               "crash_leaks_without_clear_errors (decide witness), drain_eq_pullsOf. Tied by driver op `faults` and a deterministic stage over all 84 "
               "sequences of length <= 3 (correspondence + direct oracle with position-tagged error messages).",
        "AsyncMap defines no aclose / athrow (`__slots__ = (source_stream, map_value)`): closing is exercised only where a stream object offers it (none "
        "today); crashing events of the random streams remain outside the model comparison (direct oracle only).")
# ---------------------------------------------------------------------------------------------------------------
# State of the tree after the builder rounds co / co2 (C07, C10, C15): what the texts above do not say yet.
# ---------------------------------------------------------------------------------------------------------------
def _now(k, text=None, note=None, technique=None):
    if text:
        CHECKS[k]["text"] = CHECKS[k]["text"].rstrip() + " AS BUILT NOW: " + text
    if note:
        CHECKS[k]["note"] = CHECKS[k].get("note", "").rstrip() + " " + note
    if technique:
        CHECKS[k]["technique"] = technique


_now("C07",
     "model files Coerce.lean / CoerceExec.lean / PyNum.lean, specification Spec/Coerce.lean (Conforms). The route-equivalence headline is now "
     "literal_variable_equiv_at / literal_variable_equiv_total_at (per TYPE: the two parsers of a custom scalar have to agree only at the custom-scalar "
     "positions reachable from the type, CustomAgreeOn reg (Reach reg ty)), unconditional for types and schemas without custom scalars "
     "(literal_variable_equiv_builtin, _no_custom, same_arguments_builtin, builtin_scalars_agree); customAgree_necessary and default_scalar_routes_differ "
     "show the hypothesis cannot be dropped (finding A10). literal_variable_equiv_partial keeps 'natural JSON kind' explicit: "
     "literal_variable_equiv_refuted_cross_kind / rejects_cross_kind_refuted are the machine-checked witnesses of finding A8 (lenient built-in parsers, "
     "pinned by the suite). The history stream has a DETERMINISTIC derivation probe (det_probe: fixed clone / extend / camel-case / visibility plans on a "
     "fixed schema with enums keyed by internal value, python-named input fields and defaults; fixed requests through every derived schema).",
     "Only exercised, not modelled: the schema-derivation operations themselves (C14's model), resolver memoisation per (field definition, node). Declared "
     "defaults are handed over as declared: RegOK.defaultsConform is a premise (established by SDL-built schemas); for code-first schemas only DeclaredOK "
     "holds and the statement is refuted (defaults_filled_statement_refuted, known finding A11). Named probe default-shapes: A11, T14 (C14's finding at "
     "the resolver), A12 (scalar implemented by a visitor: proposed fix C07-A12). A refused derivation of the deterministic probe is a reported failure.",
     "Lean 4 proof (coercion soundness, per-type route equivalence, never-raises, before-resolver trace over response trees) + source-translated scalar "
     "branches + resolver-kwargs correspondence incl. derived schemas")
_now("C10",
     "model file Response.lean (+ Generated/ResponseKeys.lean), specification Spec/ResponseSpec.lean (WellFormedK with the column key as a parameter), "
     "Spec/NullSites.lean, Spec/TreeOk.lean. Headlines: response_wellformed_unless_syntax_error (section 7.1 AS WRITTEN for every request that parses), "
     "response_wellformed_partial (syntax errors: well-formed up to the extracted key) and full_statement_refuted (finding X1: the only departure); "
     "extensions_passed_through / no_extensions_invented (resolver-supplied extensions reach the response unchanged and nothing else produces the key), "
     "only_lf_cr_end_lines (index_to_loc starts a line at LF, CR, CRLF only: the deterministic `linechars` class sends every other Unicode line "
     "separator in front of an error position).",
     "response_wellformed_pipeline (Props/C10_stages.lean) builds the stage record from the models: parse stage = C01's parseTextE on the text "
     "(StagesOk.parse discharged), executed stage = the executor model (executed_stage_ok, executed_errors_are_resolver_errors), StagesTyped is a "
     "theorem (stages_typed). Left as hypothesis LaterOk: the nodes of validation / variable-coercion / root-collection errors start at tokens of "
     "the text (C06's model records the reporting rule, not the nodes; checked on the real errors of every text request, corr:stage-hypothesis:*) "
     "and treeOkFields (user code: strict leaves and extensions).")
_now("C15",
     "model files Introspect.lean / IntrospectPrims.lean (+ Generated/Introspection.lean), specification Spec/Introspect.lean (decoder "
     "schemaOfIntrospection, observable normal form norm). Exactness theorems next to introspect_lossless: interface_possible_types_exact / "
     "interfaces_possible_types_dual / object_interfaces_exact / possible_types_null_elsewhere (possibleTypes of an interface = exactly the objects "
     "that declare it, and null for every other kind), deprecation_reason_exact, directive_keys_june2018, default_string_reads_back_iff (a plain "
     "String / ID default reads back IFF it has no control character other than TAB / LF / CR: the exact boundary of finding I1's residue). "
     "Deterministic class eq-colliding: defaults and enum internal values 1 / True / 1.0 / 0 / False / 0.0 on one JSON-like scalar and one enum, "
     "two schemas sharing the type objects, introspected in one process with a type-strict round-trip oracle.",
     "Known findings I5 (VARIABLE_DEFINITION is not a member of __DirectiveLocation), I10, T14 (C14's finding seen through introspection: oracle "
     "derived-defaults). introspect_lossless_end_to_end: Spec.decodeAll reads every entry (possibleTypes of interfaces included) and equals "
     "(norm s, implementers s) within the TypeRef depth of the standard query; checked on the REAL answer on every run.")
# ---------------------------------------------------------------------------------------------------------------
# State after the builder waves `sdl` / `sdl2` (C12, C03): final-state texts; the addenda above are folded in.
# ---------------------------------------------------------------------------------------------------------------
CHECKS["C12"].update({
    "text": ("THREE Lean models of ASTSchemaPrinter, all compared with the real printer's exact text on every run. (a) SdlPrint.printSchema / printSchemaX "
             "(String level, the module-level directive-name state threaded explicitly, all four options; include_introspection with the library constants "
             "re-read from the live objects): print_pure and print_pure_all_options (for every history of to_string calls, any schemas, any options, the k-th "
             "output equals the output of that call alone in a fresh state; print_pure_refuted_today_full is the 2-call witness of H1 on the legacy generator "
             "state). (b) the DOCUMENT the printer denotes: print_build_roundtrip / print_build_roundtrip_block (printBuildWF s => build (schemaToDoc s) = ok s, "
             "the predicate names every excluded shape: H2, H5, H6, H8; print_build_roundtrip_needs_NoH2 refutes the statement without the H2 clause), "
             "default_roundtrip / default_roundtrip_doc (every canonical default of every input kind, any nesting, reads back), custom_structured_roundtrip, "
             "printBuildWF_printOrder. (c) SdlPrintT.printSchemaT and SdlPrintTA.printSchemaTA (total Text models; TA = with print_directives at every site, "
             "include_custom_schema_directives True or a whitelist, lone-space quirk included): print_schema_text_parses and print_schema_text_parses_custom "
             "(FULL: for every option set, every schema in any order and every assignment of directive nodes satisfying the lexical predicate printTextWF(A), "
             "the printed text is accepted by the lexer and parser models of C01-C03 and parses to the tree of the printed document, all six kinds, both "
             "argument layouts, the three description layouts, defaults, any space/tab indent), printSchemaTA_conservative, custom_directives_erased, and the "
             "compositions text_roundtrip_final / text_roundtrip_custom_final / text_roundtrip_custom_build (hypotheses on s and apps only: the text parses "
             "to a document that builds a schema equal to s up to the order of definitions; applied directives INCLUDED: print_build_roundtrip_custom). "
             "build_ignores_custom / build_ignores_custom_full (FULL, every document - valid or not, with type and schema extensions - every value of "
             "ignore_extensions and additional_types: build doc = build (doc.map eraseCustom), the builder model reads directive applications only through "
             "@deprecated). THE PRINTER MODELS ARE ONE: printSchemaTA_eq_printSchema (FULL: the String-level model, made total and list-based, and the Text-level "
             "model print the same code points for every option set, schema and directive assignment whose PRINTED applications consist of lexemes - "
             "models_differ_on_empty_lexeme shows the hypothesis is needed; no hypothesis without applied directives: printSchemaT_eq_printSchema), "
             "runHistory_texts (every output of every call history is the Text model's text), print_schema_text_parses_string / text_roundtrip_string (the "
             "text theorems about the model the history correspondence compares). LONG DESCRIPTION LINES (wrapped_lines, modelled exactly in both models): "
             "wrapped_description_lexes (FULL: a description inside descWrapOK - descTextOK without its width clause, shape conditions asked of the wrapped "
             "lines - is printed, at every depth and space/tab indent, as text the lexer model reads as exactly ONE BlockString token whose value is the wrapped "
             "lines joined by line feeds), descWrapOK_extends, wrapped_short_value, and h12_value_differs (finding H12 on the model: the value read back is not "
             "the description); the statement is also evaluated against the real code (driver op wrapDesc: the description read back from to_string equals the "
             "model's wrapped value, named probes + a long-description stream); rewrapped_description_fixpoint (wrapped lines that FIT are printed the "
             "same way again: the text is a fixpoint from the first round) with h12_not_a_fixpoint (refuted for an unbreakable word longer than the width), "
             "and at SCHEMA level printSchemaT_rewrap_invariant / print_schema_text_parses_rewrapped / text_roundtrip_rewrapped: the text theorems WITHOUT the "
             "width clause - the printed text of a schema with over-long description lines parses to, and builds, the RE-WRAPPED schema (rewrapSchema), whose "
             "text is the same. include_introspection at TEXT level: SdlPrintTA.printSchemaXTA, tied to the String model for all four options by "
             "printSchemaXTA_eq_printSchemaX (+ _default: no hypothesis when no directive application is printed) and runHistoryX_texts. "
             "h5_* / h12_width_boundary state the other description findings. "
             "Every history also runs in ONE forked child and every call alone in a fresh child; direct oracles dump(build(to_string(s))) == dump(s), "
             "fixpoint, parser accepts, root names differing only by case, non-root types named Query/Mutation/Subscription, exotic strings, look-alike "
             "numeric ID defaults, description edge cases."),
    "note": ("Trusted: Lean kernel; generators; the library constants of include_introspection are re-read, not modelled. The text-level theorems do not cover "
             "include_introspection=True (its library descriptions are re-wrapped: finding H12, and its output is not rebuildable: C12/1); for include_introspection=True "
             "the whole-schema PARSE theorem is not composed (the specified directives are printed first and unsorted, outside the print-order core "
             "lemma); its text is the Text model's (printSchemaXTA_eq_printSchemaX) and each of its re-wrapped descriptions lexes to one block string "
             "(wrapped_description_lexes). Known findings H2, H5, H6, H8, H12, C12/1, C12/5, C12/6, C12/7 (see known_findings.json). "
             "Repaired: H1, H3, H9, H11."),
    "technique": ("Lean 4 proof (printer purity over call histories and all options, document- and text-level round trip with applied directives, "
                  "builder blind to custom applications, equality of the two printer models, re-wrapped descriptions lex to one block string) + exact-text correspondence of the printer models + fresh-process reference + round-trip oracle"),
})
CHECKS["C03"].update({
    "text": ("String level: quoted_roundtrip (lexAll (jsonDumps v) is exactly the String token v, all code-point lists) and block_roundtrip (FULL: for every "
             "value the printer lays out as a block string and every enclosing indentation, lexing the printed text and applying BlockStringValue gives the "
             "value back; layout lemmas splitLines/joinLF, commonIndent shift, stripBlank). Document level: Lean model of the whole ASTPrinter (every print_*, "
             "_wrap/_join/_block/_indent, indent int or string, include_descriptions): print_tokens_*, print_parse_type / print_parse_value_full / "
             "print_parse_executable (exact), print_parse_document_modulo_members / print_parse_document_exact, and at TEXT level, quantified over EVERY text "
             "the lexer and parser models accept, every flag combination with no_location and EVERY indentation (IndentOK: any string over space/tab; "
             "print_parse_every_indent_arg / print_parse_loss_every_indent_arg instantiate it for the `indent` ARGUMENT: every int - negative ints print like "
             "0 - and every space/tab string; indent_content_refuted shows any other character is content): print_parse_modulo_members, "
             "print_stable, print_parse_exact, and the headline print_parse (the full statement except the pinned finding R4, with the exclusion as the "
             "predicate HasMemberDescription) with print_parse_iff (the exclusion is EXACT: a parsed tree round-trips iff it has no member description) and "
             "print_parse_loss (what is lost is only that; printing the re-parsed tree gives the same text); parser_output_ok is the bridge from parser output "
             "to the printer's well-formedness conditions. print_parse_refuted + r4_* = machine-checked witness of R4 (pinned by test_schema_kitchen_sink). "
             "print_total, float_lexeme_spec, print_deep_list / print_deep_list_type (the model printer is total at every nesting depth). Tied by EXACT-TEXT "
             "correspondence of the pipeline text -> lexAll -> parse -> print with print_ast on generated executable and type-system documents, fixtures and "
             "mutants for 7 indent settings, the direct round-trip / stability oracle, call histories on shared printer instances, a deep-nesting stream "
             "per recursive position with measured boundaries, and a deterministic indent-domain block (negative, odd and large widths, mixed space/tab strings)."),
    "note": ("Trusted: Lean kernel; generators. include_descriptions=False is outside the statement. Known findings R4 (member descriptions dropped by the AST "
             "printer; why the unrestricted round trip is 'modulo members'), R7 (print_ast raises RecursionError on deeply nested documents the parser accepts; "
             "a divergence of the recursive implementation from the total model). Repaired: R1, R2, R3, R5, R6."),
    "technique": "Lean 4 proof (string encoders, block-string layout, whole-document print/parse round trip at text level for every indent) + exact-text printer correspondence + round-trip oracle",
})


# ---------------------------------------------------------------------------------------------------------------
# C11 as built after the deepening rounds (replaces the texts above; obligation names are appended by manifest_gen.py).
# ---------------------------------------------------------------------------------------------------------------
CHECKS["C11"].update({
    "text": ("Lean model of build_schema (Sdl.lean: _collect_definitions, ASTTypeBuilder.build_* / extend_* with both caches as by-name lookups, "
             "additional_types as pre-loaded cache entries, default values through value_from_ast incl. the re-evaluation after extension, "
             "_deprecation_reason, circular-reference guard, roots from the schema block / default names / extend schema, _build_type_map closure, "
             "ignore_extensions) and of the PUBLIC extend_schema(schema, doc, strict) (SdlExtend.lean: _collect_extensions strict and lax, new "
             "definitions built then extended, roots kept). Specification Spec/SdlSpec.lean: Declared doc (definitions, then every extension block "
             "merged into its target in document order, defaults coerced over the merged definitions), SdlValid. Headline theorems, all full on the "
             "by-name model: build_exact_spec / build_exact_valid (a document satisfying the rules of the specification - SdlValid + kind rules of "
             "eager references, which are derived from C13's ValidSchema in build_exact_valid, + root rules - and the residue BaseDefaults / "
             "SelfDefaults / noThunkCycle builds, and the schema is exactly Declared doc; residue_necessary: three witnesses show each residue "
             "premise cannot be dropped, findings S8 and S1b), build_exact_final (same from SdlOK; noEagerCycleBase and rootsOk derived), "
             "build_perm_final / build_perm_spec (validity of ONE document suffices, only the order of the extension blocks of each target is kept; "
             "ext_order_matters shows that is necessary), build_rejects / no_other_branch (every rejection, any flags, any supplied types, is "
             "SDLError / ExtensionError / SchemaError or the RecursionError of S1b; build_internal_of_thunkCycle says when), build_ignoreExtensions "
             "(ignore_extensions=True is the build of the document without its extend blocks, every document, every additional_types), "
             "extend_exact_strict / extend_exact_lax / extend_exact_lax_general (extend_schema(build(base), B) for ANY document B the collection "
             "accepts returns exactly the content base ++ B declares; lax_is_strict_on_kept: strict=False is strict=True on the kept part), "
             "extend_eq_build, extend_perm, extend_rejects, strict_refines, collect_strict_exact, extendSchema_is_public; refutations: "
             "build_exact_refuted (the unrestricted statement, finding S8), extend_roots_not_rederived (extend_schema never re-derives default "
             "roots: the side condition of extend_exact_* is necessary). SUPPLIED TYPES (SdlAdditional.lean buildA = what the driver answers; "
             "buildA_nil: without supplied types it IS build): same-name supplied types (last wins), transitive registry closure, a supplied type "
             "shadowing a specified one is refused once referenced, extension blocks of supplied enums / input objects seen by default literals; "
             "DeclaredWith + build_exact_additional_noext (documents without extension blocks, ANY supplied types: the schema is exactly the declared "
             "content - a definition whose name is supplied is the supplied type as it is), supplied_overrides, registered_only_if_reached, "
             "extend_supplied_exact (extension blocks are applied to a supplied type exactly, every kind), buildA_rejects; "
             "build_exact_additional_refuted / supplied_extension_dropped: with extension blocks the statement is FALSE today (finding C11/A1, fix "
             "proposed). IN-PROGRESS DEFAULTS: touches_reach / thunkNeeds_reach / selfDefaults_of_noSelfReach / noThunkCycle_of_noSelfReach / "
             "build_exact_acyclic_inputs / build_exact_defaults_off_cycles (the `hide` approximation and the S1b thunk cycles need an input object "
             "type WITH A DEFAULTED FIELD that reaches itself: for documents whose defaults sit off the cycles of input objects - recursive input "
             "objects allowed - the residue of build_exact_spec is BaseDefaults alone, a premise about the document only); mutual_default_not_completed / "
             "h4A_not_selfDefaults / mutual_required_accepted (hunt4 C11-1: the model predicts the stale default and the accepted invalid document); "
             "SdlInProgress.lean buildP = the extension pass with the builder's real _extended_cache / _in_progress bookkeeping (executable "
             "reference, no theorem). SCHEMA DIRECTIVES: used_definitions_are_new / two_phase_directives_once (which parts' directives extend_schema "
             "applies: never those of a definition the schema already has). Tied by the correspondence of canonical schema dumps (walk through public "
             "attributes) and rejection classes on generated SDL (six kinds, wrappers, defaults of every input kind, descriptions, deprecations, "
             "directives, schema blocks, extensions split arbitrarily over extend blocks, ALL definition orders of small documents, both flags, "
             "additional_types incl. enums with internal values and types referenced from extension blocks only), 38 labelled single-defect documents "
             "with validation ENABLED, 36 named extension documents x strict/lax for the public extend_schema, 39 named additional_types probes, "
             "20 named in-progress probes + a targeted stream of recursive input objects (and every batch document) against buildP, schema-directive "
             "applications counted per element for build_schema and the two-phase build, and the direct oracle: dump of the "
             "built schema == the declared content known by construction (reference coercion in Python), library error class on every labelled defect."),
    "note": ("Trusted: Lean kernel; generators; gen/sdl.py (ref_coerce, declared, doc_json). Lazy type thunks are by-name references (stack overflows "
             "from eager recursion are seen by the correspondence and the S1b probe only). Schema.validate() is not part of the model (C13): documents "
             "rejected by validation only are compared with validation disabled; the kind rules enter build_exact_valid through C13's ValidSchema. "
             "additional_types: exactness proved for documents without extension blocks; with extension blocks per supplied type "
             "(extend_supplied_exact) - the schema-level statement is refuted by finding C11/A1 until the proposed fix is committed; the public "
             "extend_schema(..., additional_types=) is not modelled. The approximate model (one hidden type) differs from the code on about a fifth of the "
             "documents of the targeted stream (recursive input objects + defaults + extensions; 188 of 1000 measured); buildP agrees on all of them but carries no theorem: the "
             "theorems hold under SelfDefaults, which the one-hidden-type model can satisfy where the code keeps a stale value (probe finding-H4-defaulted-backref): the statement that is safe to read against the code is build_exact_defaults_off_cycles. Only exercised by the correspondence / oracle: the "
             "APPLICATION of schema_directives (SchemaDirective visitors), Schema objects assembled in Python passed to extend_schema, nodes lists. no_other_branch_partial (vacuous) and "
             "build_exact_partial are kept for name stability and superseded by no_other_branch / build_exact_final. Known findings S8, S1b, S10, "
             "C11/2, C11/3, C11/7, C11/A1 (new), C11/H4-1 (hunt4)."),
    "technique": ("Lean 4 proof over the builder model (exactness from the specification's rules, permutation, rejection classes, public "
                  "extend_schema strict/lax) + schema-dump correspondence + declared-content and labelled-defect oracles"),
})

# ---------------------------------------------------------------------------------------------------------------
# Builder `sdl3` (C12): repairs after audit 3 (findings F8, F9, F10).
# ---------------------------------------------------------------------------------------------------------------
CHECKS["C12"]["text"] = CHECKS["C12"]["text"].rstrip() + (
    " AFTER AUDIT 3 (builder sdl3): THE THIRD CLAUSE ('serialising the rebuilt schema reproduces the same text') is a theorem: print_fixpoint_text "
    "(printTextWF and printBuildWF => the text parses, the parsed document builds s', printSchemaT o s' = printSchemaT o s, and s' is again inside both "
    "predicates), print_fixpoint_text_custom (applied directives), print_fixpoint_string (the String model of the history correspondence), reprint_of_build. "
    "EVERY PRE-IMAGE (F9): SdlText.astToDoc rho is the conversion parsed tree -> document as a FUNCTION of the tree (rho stands for Python's "
    "repr(float(.)), a parameter); docToAst_left_inverse (astToDoc rho (docToAst doc) = reDoc rho doc: docToAst drops nothing but the f components and "
    "the member lists not of a definition's kind), docToAst_injective_on_canon, text_roundtrip_every_preimage / _custom_every_preimage and "
    "print_fixpoint_every_preimage (no existential over documents: the document converted from the parsed tree - and every canonical document with that "
    "tree - builds the schema), hypothesis CanonDoc rho (printedDoc s) reduced to the printed default literals by canonDoc_schemaToDoc / litsCanon_of_wf "
    "and EVALUATED on every run with Python's real repr(float(v)) (driver op printT: canon, preimage). "
    "VALIDITY (F10): valid_implies_printWF - C13's ValidSchema (on the view that includes the specified types: Covers s full) and the decidable residual "
    "printResidual o s (every conjunct a named exclusion: NoH5/NoH12 descriptions, NoH6, NoH2/NoH8/printable defaults, SDL-style unique enum values, "
    "representation invariants, no reference cycle, options) imply printTextWF o s and printBuildWF s; validity discharges every name-lexeme clause, "
    "non-emptiness, reference resolution and the roots; printResidual_necessary (the residual FOLLOWS from the two predicates: on valid schemas it is "
    "exactly the domain of the theorems); valid_roundtrip (the property for valid schemas, exclusions named); h2_valid_but_excluded (a schema that passes "
    "C13's validation and fails only the NoH2 clause: the residual is not redundant). "
    "include_descriptions=False (F8): printSchemaT_descriptions_off (with descriptions off the printer prints the description-free schema stripSchema s, "
    "no hypothesis), print_schema_text_parses_nodesc, print_fixpoint_text_nodesc (round trip and fixpoint for the other value of the option; the "
    "description clauses NoH5/NoH12 are vacuous there); evaluated by the driver on every call with descriptions off (wfStrip, parsesStrip).")
CHECKS["C12"]["note"] = CHECKS["C12"].get("note", "").rstrip() + (
    " (sdl3) Python's repr(float(.)) is NOT modelled: the every-pre-image theorems quantify over rho and assume it agrees with the printer on the printed "
    "numerals (true of every schema of the streams; asked also at ID / custom-scalar positions where build does not read f). valid_implies_printWF "
    "depends on the generated name tables of C13 (VALID_NAME_RE).")

# -*- coding: utf-8 -*-
"""Per-property manifest entries. One dict entry per CLAIMED property."""

HOOK_COMMITS = []

NOTES = ("All checks: `harness/check.py Cxx`. Each run re-extracts Generated/*.lean from /repo's working tree, "
         "rebuilds the property's Lean theorems and driver, audits axioms, then runs the correspondence and the "
         "direct property oracle on the real code. known_findings.json lists reproduced defects of the unchanged tree.")

NOT_APPLICABLE = {}

CHECKS = {
    "C06": {
        "text": ("Lean model of the whole validation chain (TypeInfo stacks, ChainedVisitor/SkipNode semantics, all 26 rule visitors, VariablesCollector, fragment cycle search, "
                 "field-merge search with its caches) whose rule list must equal SPECIFIED_RULES RE-EXTRACTED from validate.py each run (rules_match_source, decide); "
                 "rule_*_iff for five rules (unique argument names, unique directives per location, single field subscriptions, known type names, variables are input types) on top of "
                 "visitDocument_E (a non-skipping chain enters/leaves every node exactly once); verdict_iff_partial and perm_definitions_partial for those; machine-checked "
                 "refutations of order-invariance for the UNFIXED collector (V3, V4). 21 rules are listed in Spec.Unproved. Tied by correspondence (verdict on every document; set of "
                 "reporting rules on single-violation documents; every rule standalone) and the direct oracle: valid-by-construction => no error, each of 29 labelled single-rule "
                 "violations => error attributable to that rule, verdict unchanged under the six transformations."),
        "note": ("Trusted: Lean kernel; generators/injectors; is_subtype/types_overlap hand-modelled. Most rules and the alpha/perm invariances rest on the correspondence + oracle, not on "
                 "theorems. Known finding V8 (list literal at non-list position accepted)."),
        "technique": "Lean 4 proof (5 of 26 rules, chain walk) + full-chain model correspondence + labelled-violation/metamorphic oracle",
    },
    "C08": {
        "text": ("Lean model of chain / unwrap_future / gather_futures (counter state machine) / asyncio gather_values and of the generic Executor over a simplified operation form with "
                 "schedule-driven completion: gather_slots, gather_first_exception, chain_else, unwrap_*, gather_values_patch, schedule_independent, unexpected_surfaces (full); "
                 "async_eq_blocking_partial (data and failure status equal the blocking executor's for every schedule; error-list permutation unproved), always_terminates_partial. "
                 "Tied by running the REAL combinators/executors under a controlled scheduler (manual executor for the thread pool, harness-resolved futures on a private asyncio loop): "
                 "all schedules for <=4/6 tasks, four configurations, pairwise equality oracle + trace correspondence, watchdog for hangs."),
        "note": ("Trusted: Lean kernel; generators; asyncio task scheduling is only exercised. Residual that no model here exhibits: true parallel interleaving of callback bodies on "
                 "worker threads (non-atomic `done += 1` in gather_futures) — touched only by a short real-thread smoke run."),
        "technique": "Lean 4 proof (combinator state machines, schedule independence) + controlled-schedule exhaustive correspondence",
    },
    "C09": {
        "text": ("execute_fields_serially as the code's state machine over the C08 algebra: keys_in_order, failure_does_not_stop, blocking_serial (full), serial_order_partial (the next "
                 "top-level field cannot start while the current field's node holds an outstanding task; trace form kept visible). Tied by call/done event traces of the real executors under "
                 "all completion orders (four configurations) and the direct trace-predicate oracle."),
        "note": "Trusted: Lean kernel; generators. The transfer of serial_order from tree states to trace positions is unproved (checked on every generated trace).",
        "technique": "Lean 4 proof (serial queue machine) + controlled-schedule trace oracle",
    },
    "C04": {
        "text": ("Lean model of collect_fields (with the _seen_fragments quirk), _skip_selection, _fragment_type_applies, execute_fields, resolve_field, complete_value, "
                 "resolve_type and the error accumulator, and the spec's CollectFields/ExecuteSelectionSet/CompleteValue: skip_include, alias_merge, keys_document_order, "
                 "siblings_undisturbed, abstract_possible_type, local null/error lemmas, exec_pure (possible-types cache = stateless function after any history), "
                 "exec_refines_spec_partial (exact equality model = spec on documents without named spreads; quirk witness machine-checked). Tied by ordered-data / "
                 "error-multiset correspondence real executor vs model vs Lean spec on generated schemas, valid operations, worlds and request histories."),
        "note": ("Trusted: Lean kernel; generators; argument/variable coercion computed by the real code (opaque here, C07); introspection fields, async executor and "
                 "hooks not in this model. Refinement with named fragment spreads and the global null-error bijection are unproved (correspondence only)."),
        "technique": "Lean 4 proof (executor model vs spec) + world-resolver correspondence",
    },
    "C05": {
        "text": ("validated_no_internal_error_partial (collect_fields never takes an internal branch under the declarative ValidDoc), validated_shape / validated_shape_field "
                 "(every computed value has the shape of its declared type, unconditionally) on the executor model; tied by an adversarial stream of invalid/mutated "
                 "documents: validate_ast must return; accepted => ValidDoc (Lean) and execution under typed worlds raises no internal exception and has the schema shape."),
        "note": ("Trusted: Lean kernel; generators. The executeFields half of validated_no_internal_error is unproved; the 26 rules themselves belong to C06. "
                 "Known finding V8 (`@include(if: [true])` passes validation and raises CoercionError at execution)."),
        "technique": "Lean 4 proof (type soundness lemmas) + adversarial validate/execute oracle",
    },
    "C07": {
        "text": ("Lean model of coerce_value / value_from_ast / coerce_variable_values / coerce_argument_values / scalar parsers with the Int range test and the Float "
                 "finiteness guard TRANSLATED from scalars.py each run: variable_sound, literal_sound, variables_sound, arguments_sound (=> Conforms), int_full_range, "
                 "literal_variable_equiv (same outcome on both routes, recursive input objects included), omission/wrapping/rejection theorems, floatGuard_spec; all full. "
                 "Tied by correspondence on all type expressions x literals x JSON values x provided/omitted/null and by the kwargs seen by recording resolvers in real runs "
                 "(incl. divergent interface implementations sharing one field node)."),
        "note": "Trusted: Lean kernel; translator; Python int()/float() parsing enters as harness-observed annotations; fuel universally quantified; VarsFit is a hypothesis.",
        "technique": "Lean 4 proof (coercion soundness + route equivalence) + source-translated range tests + resolver-kwargs correspondence",
    },
    "C01": {
        "text": ("Lexer part: Lean model of Lexer.__next__/_read_* and index_to_loc/highlight_location with theorems error_in_range_partial "
                 "(+ machine-checked refutation of the full statement: position len+1 pinned by the suite, finding L6), render_total, "
                 "index_to_loc_total_iff and table-to-spec theorems over IGNORED_CHARS/SYMBOLS/QUOTED_CHARS/digit/name classes RE-EXTRACTED from lexer.py "
                 "each run. Parser part: Lean model of every parse_* with parseValue/parseType sound+complete+accepts_iff for all 8 flag combinations "
                 "(document grammar: parse_sound_partial/parse_complete_partial, full statements kept visible) and theorems over the keyword/location tables "
                 "re-extracted from parser.py. Tied by token/AST correspondence on grammar-directed documents, mutants, every prefix, fixtures and "
                 "bounded-exhaustive token strings, plus direct oracles (spec recognisers, error contract, ignored-run invariance)."),
        "note": ("Trusted: Lean kernel; table extraction; generators. lex_sound/lex_render and document-level parse soundness are NOT proved: they rest on the "
                 "correspondence and on the compiled grammar matcher run on every accepted document. RecursionError on deep nesting is the named probe (finding P1)."),
        "technique": "Lean 4 proof (value/type grammar, tables, error rendering) + extracted tables + token/AST correspondence",
    },
    "C02": {
        "text": ("block_string_spec (parse_block_string model = BlockStringValue transcribed from the spec, all inputs), escape_spec (iff with StringCharacter*), "
                 "number_verbatim; span_spec_type/span_spec_value and matches_spans (matcher => declarative derivation with spans), noloc theorems; document spans "
                 "are span_spec_partial. Tied by correspondence of decoded values and of every node's loc, and the direct oracle 'source[loc] re-parses to an equal node'."),
        "note": "Trusted: Lean kernel; generators. Document-level span_spec is partial (values and types proved); the rest rests on the correspondence and re-parse oracle.",
        "technique": "Lean 4 proof (block strings, escapes, value/type spans) + decode/span correspondence + re-parse oracle",
    },
    "C03": {
        "text": ("quoted_roundtrip (lexAll (jsonDumps v) is exactly the String token v, all code-point lists), block_roundtrip_partial (escaping half; full statement visible "
                 "with decide-checked instances); printer string encoders modelled and compared as exact text; direct oracle decode(print(s)) == s and "
                 "print_ast round trip with strings nested 0-3 deep and as descriptions."),
        "note": ("Trusted: Lean kernel; generators. The DOCUMENT printer (print_ast over all node kinds) is not yet modelled: its round trip is covered by the direct oracle on "
                 "generated documents only; layout half of block_roundtrip unproved."),
        "technique": "Lean 4 proof (string encoders) + exact-text correspondence + print/parse round-trip oracle",
    },
    "C11": {
        "text": ("Lean model of the SDL builder (collect definitions/extensions, build_*/extend_*, roots, defaults, deprecation, ignore_extensions, additional_types) with "
                 "collect_exact, collect_rejects_*, appendNew_* (extension members appended in document order, failure only with ExtensionError); build_exact is refuted by a "
                 "decide witness (finding S8: defaults coerced before extensions are merged), full statements kept visible. Tied by correspondence of canonical schema dumps on "
                 "generated SDL (all six kinds, extensions split over blocks, permuted orders, 38 labelled defects) and the direct oracle Declared(doc) / exception class."),
        "note": "Trusted: Lean kernel; generators; Schema.validate() not modelled (documents rejected only by validation are compared with validation disabled).",
        "technique": "Lean 4 proof over builder model + schema-dump correspondence + labelled-defect oracle",
    },
    "C12": {
        "text": ("Lean model of ASTSchemaPrinter as schema -> text with the module-level directive-name state threaded explicitly: print_pure_partial, printDirectives_state_fixed, "
                 "generator_consumed / print_pure_refuted_today (the 2-call witness of H1 on a generator state) and print_pure_witness_fixed; model text == real text on every call of "
                 "random to_string histories; direct oracles dump(build(to_string(s))) == dump(s), fixpoint, purity across histories, parser accepts."),
        "note": "Trusted: Lean kernel; generators. to_doc_build / print_fixpoint / default_roundtrip are not proved (oracle only); include_introspection not modelled.",
        "technique": "Lean 4 proof (printer state) + exact-text correspondence over call histories + round-trip oracle",
    },
    "C14": {
        "text": ("Object-heap model (identities, shallow copy, heal visitor, clone, transforms, extend) whose code variant flags are RE-EXTRACTED from schema.py / ast_type_builder.py / "
                 "schema_from_ast.py each run: extend_frames_source and extend_sequence_frames_source (all inputs), healed_registered, busted_accumulates, frame algebra; "
                 "clone/transform closedness and frame are _partial with decide witnesses for the fixed variant and machine-checked refutations for the legacy variant (T1,T2,T3,S2). "
                 "Tied by correspondence of the live object graph (identities canonicalised) over random clone/transform/extend sequences and direct closedness / frame / preservation oracles."),
        "note": "Trusted: Lean kernel; flag extraction; generators. General clone_closed / transform_closed / untouched_preserved are not proved (correspondence + oracle only).",
        "technique": "Lean 4 proof over heap model (frame for extend; witnesses) + live object-graph correspondence",
    },
    "C15": {
        "text": ("introspect_lossless proved in full (decoder(introspect s) = norm s for every schema with <= 7 wrappers; bound shown tight), deprecated_hidden, disabled_hides_all, "
                 "disabled_keeps_ordinary, meta-field chain and _format_default_value TRANSLATED from source each run; default_parses refuted with four witnesses (finding I1, repair pinned "
                 "by test_introspection_on_input_object) + default_parses_partial. Tied by correspondence of the full introspection JSON and the direct decode-and-compare / re-parse-default oracle."),
        "note": "Trusted: Lean kernel; translator; generators. asyncio/thread-pool runs only exercised by the Python oracle.",
        "technique": "Lean 4 proof (lossless decoder) + source-translated formatter + introspection JSON correspondence",
    },
    "C16": {
        "text": ("Trace model of process_graphql_query / execute / both executors' resolve_field / apply_middlewares / MultiInstrumentation: stages_nested (every outcome, executor, schedule), "
                 "field_hooks_once (every schedule: permutation of per-field chunks), middleware_once_in_order, multi_order, multi_member_sees_all; order under deferred schedules is "
                 "field_hooks_ordered_partial. Tied by event-trace correspondence on all request outcomes x four configurations x all 36 schedules and the direct bracket/once oracle."),
        "note": "Trusted: Lean kernel; generators. Known finding N2 (on_field_end fires twice when completion raises ResolverError under Executor). Thread-pool runs use atomic completions only.",
        "technique": "Lean 4 proof over hook-trace model + controlled-schedule trace correspondence",
    },
    "C17": {
        "text": ("Model of subscribe / create_source_event_stream / execute_subscription_event with the shared executor's error list and clear_errors, AsyncMap: one_result_per_event, "
                 "kth_result_is_exec_of_kth_event, errors_isolated (+ decide refutation without clear_errors), refusals, accepted_stream, all full. Tied by correspondence and a direct "
                 "oracle on the real subscribe() on a private asyncio loop (event lists, delays, errors on arbitrary events, every refusal with source-consumption detection)."),
        "note": "Trusted: Lean kernel; generators. Overlapping __anext__ calls on one executor are outside the sequential protocol modelled.",
        "technique": "Lean 4 proof over subscription stream model + real asyncio stream oracle",
    },
    "C18": {
        "text": ("Generic table-driven visitor model over rose trees; the traversal table (children, order, assignment) and dispatch registries are RE-EXTRACTED from visitor.py / ast.py each run: "
                 "identity_noop, balanced, once, delete_local, replace_local, skip_local, chained_order (all tables/visitors), table facts by decide +kernel; coverage is coverage_partial "
                 "with machine-checked gap witnesses (findings W1-W6, pinned by test_visitor.py). Tied by trace/tree correspondence with scripted real visitors at every node position and "
                 "the direct exactly-once / nesting / locality oracle."),
        "note": "Trusted: Lean kernel; table extractor; generators. No tree-level editAt theorem for all positions (frame rules + bounded instances).",
        "technique": "Lean 4 proof over source-extracted traversal table + visitor trace correspondence",
    },
    "C19": {
        "text": ("Model of collect_fields_untyped / selected_fields / MaxDepthValidationRule and an independent depth specification: flags_iff, no_raise, name_filter, wrap_inline_ge, "
                 "wrap_spread_ge (acyclicity of the wrapped document as hypothesis), depth_fuel_irrelevant, measured_eq_depth, all full for the fixed rule; decide refutations for the "
                 "original rule. Tied by correspondence (error set, raises) and the direct oracle flagged <=> spec depth > limit on exhaustive small distributions over fragments."),
        "note": "Trusted: Lean kernel; generators. Known finding Q1-vars (raw request variables: omitted directive variable with default raises CoercionError).",
        "technique": "Lean 4 proof (rule = spec depth) + exhaustive small-scope correspondence",
    },
    "C10": {
        "text": ("Lean theorems about the hand model of index_to_loc / to_dict of every error class / GraphQLResult.response / the staged "
                 "process_graphql_query / the executors' error capture: loc_bounds (all texts, all positions), index_to_loc_total_iff, "
                 "data_omitted_iff, null_error_bijection, result_wellformed, response_wellformed_partial (+ refutation of the full statement: "
                 "the misspelt `columne` key, finding X1); response keys and the data=None flags of the _abort calls are re-extracted from "
                 "source each run; tied by stage-outcome correspondence and a direct WellFormed + bijection oracle on four configurations."),
        "note": ("Trusted: Lean kernel; extraction of key names/abort flags; stage internals (parse, validate, coerce) are observed through the real "
                 "functions, scalar serialisers and highlight_location only exercised; async/thread-pool scheduling compared as multisets."),
        "technique": "Lean 4 proof over staged response model + extracted keys + direct response-format oracle",
    },
    "C13": {
        "text": ("Lean theorems about a method-by-method model of SchemaValidator: validate_iff/accepts_iff (no error <=> ValidSchema), "
                 "subtype_iff about Schema.is_subtype TRANSLATED from source on every run, perm_types, reports_all, "
                 "cache_sound over all histories of validate/register_* (replace_types partial + machine-checked refutation, ledger T3), "
                 "name_iff about the extracted VALID_NAME_RE classes; tied by correspondence (verdict + set of reporting rules) on "
                 "generated schemas with labelled violations, permutations and cache histories, and the labelled direct oracle."),
        "note": ("Trusted: Lean kernel; py2lean translator; extraction of name classes and rule format strings (used only to attribute errors); "
                 "inspect.signature, build_schema and fix_type_references are exercised, not modelled; direct assignment field.resolver=f is outside the statement."),
        "technique": "Lean 4 proof over hand model + source-translated is_subtype + labelled-violation correspondence",
    },
    "C20": {
        "text": ("Lean theorems about the safe-change predicates TRANSLATED from differ/__init__.py on every run "
                 "(safeIn_iff: exact for all type expressions; safeOut_iff_partial + machine-checked refutation of the "
                 "full statement = finding G1) and about the severity table EXTRACTED from changes.py; tied further by "
                 "exhaustive comparison of the real predicates with the compiled model on all type pairs of depth<=3/4 and "
                 "by a schema-level oracle (generated schema + elementary edit + reverse edit) on the real diff_schema. "
                 "diff_schema itself is modelled in Lean (Diff.lean) with theorems diff_refl (all schemas with unique names), "
                 "removed/retyped elements reported as BREAKING, nobreaking_args_permissive (semantic, full), "
                 "nobreaking_fields_strict_partial (list-free types; G1), min_severity_filters; the model is compared with the real "
                 "diff_schema on every generated schema pair (multiset of class, severity, identifying attributes)."),
        "note": ("Trusted: Lean kernel; py2lean translator; reference semantics of type expressions on abstract values "
                 "(accepts); generators. diff_schema's traversal is hand-modelled and tied by correspondence (not re-translated); "
                 "'every operation valid on old stays valid' is explored only at type-position level."),
        "technique": "Lean 4 proof over source-translated predicates + exhaustive small-scope correspondence + edit oracle",
    },
}

# -*- coding: utf-8 -*-
"""Per-property manifest entries. One dict entry per CLAIMED property. (Written by harness/merge_manifest_data.py
after a three-way merge; edit the literals below directly.)"""

HOOK_COMMITS = []

NOTES = ("All checks: `harness/check.py Cxx`. Each run re-extracts Generated/*.lean from /repo's working tree, rebuilds the property's Lean theorems and driver, "
 'audits axioms, then runs the correspondence and the direct property oracle on the real code. known_findings.json lists reproduced defects of the unchanged '
 'tree.')

NOT_APPLICABLE = {}

CHECKS = {'C01': {'text': 'MODELLED: Lex.lean (Lexer.__next__ and every _read_*, positions and error positions included; tables RE-EXTRACTED from lexer.py on every '
                 'run), Utf8.lean / ParseBytes.lean (Lexer.__init__ on a bytes source: strict UTF-8 decoding, InvalidCharacter at the character offset of the '
                 'first undecodable sequence, fix B8), Parse.lean / ParseExec / ParseTS / ParseDoc (every parse_* of lang/parser.py, many / any_ / '
                 'delimited_list, the three flags, the three entry points; keyword and location tables re-extracted from parser.py), ParseText.lean '
                 '(Parser.__init__ + entry point = lexer then parser, with the error of either), ParseLazy.lean (the LAZY token window of Parser: tokens are '
                 'pulled on demand, so an earlier grammatical error hides a later lexical one), StringUtils.lean (index_to_loc, highlight_location). '
                 'SPECIFICATION: Spec/Lexical.lean (June-2018 lexical grammar as recognisers of complete lexemes + the tiling relation Tiles / IgnRun / '
                 'Follow), Spec/LexicalReadings.lean (the clauses of Follow that are READINGS of June 2018, each under its own name) and Spec/Grammar.lean '
                 '(concrete-syntax views, WF, Matches). PROVED, lexer: lex_sound and lex_render (= lexAll_ok_iff: a text is accepted exactly when it is tiled '
                 "by ignored runs and complete lexemes obeying maximal munch and the named look-ahead clauses, and the tokens returned are the tiling's; ALL "
                 'token kinds), lex_ignored_invariant, lex_fuel_sufficient, render_total / index_to_loc_total_iff, the table-to-spec theorems; bytes: '
                 'decode_encode, decode_ok_iff (the decoder accepts EXACTLY the encodings of texts of scalar values), parse_bytes_eq_text '
                 '(parse(text.encode()) IS parse(text), all entry points and flags), parse_bytes_accepts_iff, decode_error_in_range, parse_bytes_total. '
                 'Parser: parse_sound_document, parse_complete_document, parseDocument_accepts_iff, matched_document_unique (all 8 flag combinations; '
                 'parseValue_* / parseType_* for the other two entry points). TEXT level: parse_text_accepts_iff / parse_text_result, parse_value_text_result, '
                 'parse_type_text_result; lazy window: lazy_ok_iff (acceptance and the tree never depend on the window), parse_text_ignored_invariant (+ value '
                 '/ type: two texts tiled by lexemes with the same kinds and values - any ignored runs - are both accepted or both rejected and the trees are '
                 'equal up to positions), lazy_eq_eager_of_lexable, parse_text_lazy_error_in_range (every error the lazy parser reports is within the text '
                 'except L6 on an OpenEscape text), lazy_prefix_never_ok, lazy_differs (`} "\\`: eager reports len+1, lazy the `}` at 0). ERROR CLAUSE: '
                 'parse_error_in_range, parse_text_error_in_range_partial, parse_text_render_total, and the EXACT class of the one excluded case (L6), stated '
                 'on the text with the lexical specification only: error_position_iff_open_escape (a lexer error is at len+1 EXACTLY WHEN the text ends inside '
                 'an open quoted string with a truncated escape: OpenEscape = complete tokens and ignored runs, a quote, complete string characters, `\\` or '
                 '`\\u` + at most 3 hex digits), open_escape_error, error_in_range_iff, parse_text_error_in_range_iff (lexer and parser errors, all entry '
                 'points), openEscape_endsInEscape + endsInEscape_not_openEscape (the earlier EndsInEscape is a strict over-approximation: `a\\`); refuted '
                 'with witnesses: error_in_range_refuted (`"\\`), viable_prefix_refuted (`extend scalar A`). SPEC-EDITION READINGS isolated as named clauses '
                 '(follow_int_clauses / follow_float_clauses / follow_string_clause: Follow is exactly maximal munch plus them), each with a theorem that the '
                 'code implements it and a refutation of the literal June-2018 reading: LA1 number look-ahead (number_lookahead_pinned / '
                 'june2018_glued_number_refuted), LA3 three quotes always open a block string (triple_quote_pinned, four_quotes_rejected / '
                 'june2018_adjacent_strings_refuted), LA4 no digit after the integer part 0 (leading_zero_pinned / june2018_split_number_refuted); LA2 (greedy '
                 'optional blocks) is the `nla` item of Spec/Grammar. CORRESPONDENCE: text -> tokens -> AST (whole to_dict() incl. loc) for str and UTF-8 '
                 'bytes on grammar-directed documents rendered with random ignored runs, token / character mutants, every prefix, the repo fixtures, '
                 'CR/LF/CRLF variants, bounded-exhaustive token strings x 8 flag combinations x 3 entry points; UTF-8 decoding (model vs Lexer.__init__ vs '
                 'bytes.decode: text, reject, character offset). DIRECT ORACLES: error contract (only GraphQLSyntaxError, 0 <= position <= len, '
                 'str()/highlighted/to_dict() succeed), a position beyond the end only for texts of the OpenEscape class (independent text-level scanner), '
                 'spec recognisers on single lexemes, ignored-run invariance, bytes = str, invalid UTF-8 rejected, named probes for LA1-LA4 and deep nesting.',
         'note': 'Trusted: Lean kernel; table extraction; generators; the Python canonicaliser of Node.to_dict(). Only exercised (not modelled): the '
                 "U+FFFD-replaced text carried by the error for invalid UTF-8, the exception classes and messages, CPython's recursion limit (named probe, "
                 'finding P1). Error positions of rejected texts are proved in range but not compared one by one (for texts with a lexical error the evidence '
                 "COUNTS how often the reported position is the lazy / the eager model's: coverage.lazy_window; never a failure). NOT PROVED, kept visible: "
                 'ParseFuelSufficientStatement (the parser MODEL never reports its own fuel exhaustion on a rejected input; proved for the lexer, and for '
                 'accepted inputs: parse_fuel_sufficient_partial; the verdict and every position statement are independent of it; exercised: position and '
                 'class of every parser rejection are compared with the real parser, corr:model-fuel-exhausted reports the artefact, '
                 "coverage.parser_model_rejections_without_fuel_artefact counts). 'Never any other exception' holds in the model by its types (Except SynErr): "
                 'for the code it is the correspondence outcome internal:<Class>. Residuals: L6 (len+1, pinned by test_lexer.py; rendering repaired; exact '
                 'class proved), LA1-LA4 (readings of the June-2018 grammar pinned by the suite; graphql-js agrees), P1.',
         'technique': 'Lean 4 proof (lexer soundness+completeness, grammar acceptance iff at text level, exact error-position class, UTF-8 round trip, tables) '
                      '+ extracted tables + text/token/AST correspondence'},
 'C02': {'text': 'MODELLED: the C01 lexer / parser model with loc (every node), BlockString.lean (parse_block_string), escape decoding in readStringBody '
                 '(paired surrogate escapes after fix U1). SPECIFICATION: Spec/BlockStringSpec.lean (BlockStringValue() transcribed), Spec/Lexical.lean '
                 "(stringCharacters, escape table), the span clause inside Item.check / Spans (loc = start of first token, end of last token of the node's own "
                 'segment). PROVED: block_string_spec (model = BlockStringValue, all inputs), escape_spec (sound + complete against StringCharacter*), '
                 "number_verbatim; span_spec_document / _value / _type (every node's loc is the span of its own token segment, siblings consecutive, children "
                 'nested; all flags); noloc_erasure, noloc_acceptance (no_location erases positions and nothing else). RE-PARSE AT CHARACTER LEVEL: lex_slice '
                 '(the characters between two tokens lex to the tokens in between, moved down); span_reparse_value / span_reparse_type (parse_value / '
                 'parse_type entry points, every nested node); for DOCUMENTS span_reparse_node (every node of every kind: the spanned text lexes and derives '
                 'exactly the node at offset 0), span_reparse_value_all / span_reparse_type_all (every value / type node of every definition is what '
                 'parse_value / parse_type returns for its text), span_reparse_definition (the text of a definition parses to the one-definition document), '
                 'and THROUGH THE parse ENTRY POINT for the node kinds without one of their own, the spanned text wrapped in the minimal context (LF = line '
                 'feed): span_reparse_selection_set (the text itself is the query shorthand), span_reparse_selection (`{ <text>LF}`: fields, fragment spreads, '
                 'inline fragments), span_reparse_directive (`{ a <text>LF}`), span_reparse_argument (`{ a(<text>LF)}`), span_reparse_object_field (`{ '
                 '<text>LF}` through parse_value), span_reparse_variable_definition (`query(<text>LF){a}`), span_reparse_field_definition (`type A '
                 '{<text>LF}`), span_reparse_input_value_definition (`input A {<text>LF}`), span_reparse_enum_value_definition (`enum A {<text>LF}`), '
                 'span_reparse_description (`<text>LF scalar A`, flags with allow_type_system): parse accepts the wrapped text under the same flags and '
                 'returns the document that contains exactly the node, moved by the offset of the context; closed forms without side hypothesis for executable '
                 'documents: span_reparse_selection_all / _selection_set_all / _directive_all / _argument_all / _variable_definition_all over Definition.sels '
                 '/ ssets / dirs / args / vdefs (every such node at any depth), and for type-system definitions and extensions span_reparse_directive_ts / '
                 'span_reparse_argument_ts / span_reparse_description_all over Definition.tdirs / descs (directives and descriptions of the definition and of '
                 'its field definitions, argument definitions, enum values, input fields) and span_reparse_field_definition_all / _input_value_definition_all '
                 '/ _enum_value_definition_all over Definition.fdefs / ivdefs / evdefs. OperationTypeDefinition (`schema {<text>LF}`: '
                 'span_reparse_operation_type_definition) and Name (`{ <text>LF}`, the field of that name: span_reparse_name) are covered in the hypothesis '
                 "form (sub-node of a definition's view); with them EVERY node kind of the AST has a re-parse theorem through a public entry point. "
                 "CORRESPONDENCE: decoded values and every node's loc (through the C01 driver), parse_block_string directly; DIRECT ORACLES: source[loc] "
                 're-parses to an equal node with the Parser method that produced it (incl. trailing children) AND, for these node kinds, through the public '
                 'parse() inside the same minimal context; block / quoted lexemes decode to the spec value, numbers and names verbatim, node.source slices.',
         'note': 'Trusted: Lean kernel; generators; the lexer positions feeding the spans are covered by lex_sound (C01). Only exercised: Parser.parse_* '
                 'methods called directly on a slice (the first oracle), the `source` attribute. Residual: P5 (the Document span runs from <SOF> to <EOF>, '
                 'i.e. includes surrounding ignored text; pinned by 15 tests; modelled as is). Repaired earlier: B1, B2, L4, P4, U1.',
         'technique': 'Lean 4 proof (block strings, escapes, spans for all documents, no_location erasure, character-level re-parse of every node, re-parse '
                      'through parse() in minimal context) + decode/span correspondence + re-parse oracles'},
 'C03': {'text': 'String level: quoted_roundtrip (lexAll (jsonDumps v) is exactly the String token v, all code-point lists) and block_roundtrip (FULL: for '
                 'every value the printer lays out as a block string and every enclosing indentation, lexing the printed text and applying BlockStringValue '
                 'gives the value back; layout lemmas splitLines/joinLF, commonIndent shift, stripBlank). Document level: Lean model of the whole ASTPrinter '
                 '(every print_*, _wrap/_join/_block/_indent, indent int or string, include_descriptions): print_tokens_*, print_parse_type / '
                 'print_parse_value_full / print_parse_executable (exact), print_parse_document_modulo_members / print_parse_document_exact, and at TEXT '
                 'level, quantified over EVERY text the lexer and parser models accept, every flag combination with no_location and EVERY indentation '
                 '(IndentOK: any string over space/tab; print_parse_every_indent_arg / print_parse_loss_every_indent_arg instantiate it for the `indent` '
                 'ARGUMENT: every int - negative ints print like 0 - and every space/tab string; indent_content_refuted shows any other character is content): '
                 'print_parse_modulo_members, print_stable, print_parse_exact, and the headline print_parse (the full statement except the pinned finding R4, '
                 'with the exclusion as the predicate HasMemberDescription) with print_parse_iff (the exclusion is EXACT: a parsed tree round-trips iff it has '
                 'no member description) and print_parse_loss (what is lost is only that; printing the re-parsed tree gives the same text); parser_output_ok '
                 "is the bridge from parser output to the printer's well-formedness conditions. print_parse_refuted + r4_* = machine-checked witness of R4 "
                 '(pinned by test_schema_kitchen_sink). print_total, float_lexeme_spec, print_deep_list / print_deep_list_type (the model printer is total at '
                 'every nesting depth). Tied by EXACT-TEXT correspondence of the pipeline text -> lexAll -> parse -> print with print_ast on generated '
                 'executable and type-system documents, fixtures and mutants for 7 indent settings, the direct round-trip / stability oracle, call histories '
                 'on shared printer instances, a deep-nesting stream per recursive position with measured boundaries, and a deterministic indent-domain block '
                 '(negative, odd and large widths, mixed space/tab strings). ADDED IN THE BUG-HUNT ROUNDS: print_erase (the printer ignores source positions: '
                 "print(d) = print(erase d), every node kind, Lemmas/PrintErase.lean) and, with C02's noloc_erasure, the round trip for trees parsed WITH "
                 'positions under ANY flags: print_parse_located (the printed tree re-parses to a tree equal to the original UP TO SOURCE POSITIONS, modulo '
                 'the member descriptions of R4), print_parse_located_exact (a located tree without member descriptions round-trips up to positions: the '
                 'statement as written outside R4), print_parse_located_loss, print_parse_located_iff (exact exclusion), print_stable_located.',
         'note': 'Trusted: Lean kernel; generators. include_descriptions=False is outside the statement. Known findings R4 (member descriptions dropped by the '
                 "AST printer; why the unrestricted round trip is 'modulo members'), R7 (print_ast raises RecursionError on deeply nested documents the parser "
                 'accepts; a divergence of the recursive implementation from the total model). Repaired: R1, R2, R3, R5, R6. print_total only says the output '
                 "ends with a newline: 'printing never raises' / 'is deterministic' hold for the MODEL by construction (a total Lean function without error "
                 'branch) and are tied to the code only by the correspondence and the direct oracle (stated in its doc comment).',
         'technique': 'Lean 4 proof (string encoders, block-string layout, whole-document print/parse round trip at text level for every indent) + exact-text '
                      'printer correspondence + round-trip oracle'},
 'C04': {'text': 'Lean model of collect_fields (with the _seen_fragments quirk), _skip_selection (a condition that cannot be evaluated is a CoercionError '
                 "caught at the enclosing selection set: catchDirective), _fragment_type_applies, execute_fields, resolve_field (argument coercion by C07's "
                 'model inside the executor: ExecArgs.lean; completion failures caught as field errors: catchField), complete_value (lists that raise while '
                 "iterated, resolve_type that raises), default_resolver, serialisation and the error accumulator, and the spec's "
                 'CollectFields/ExecuteSelectionSet/CompleteValue: exec_refines_spec (for EVERY ranked document - named spreads and directive conditions that '
                 "cannot be evaluated included: collect_refines_spec / collect_refines_spec_fail - the executor model's response is the spec's: same ordered "
                 'data, errors equal one by one on path and kind, locations up to repeats; exec_refines_spec_spreadfree_exact: exact equality without named '
                 "spreads; the only hypothesis, Ranked, follows from validation: C05's rules_accept_ranked / rules_accept_refines_spec need three silent "
                 'fragment rules), acyclic_rankedB / exec_refines_spec_acyclic (acyclic + unique fragment names => ranked: no per-document certificate needed; '
                 'acyclic_needs_unique_names witness), responds (every such document gets a response), null_error_bijection (no two errors share a path; every '
                 'error sits at or below a null), list_interrupted_keeps_errors, completion_error_is_field_error, root_failure_single_error, '
                 'argument_coercion_failure_is_field_error / argument_coercion_success_reaches_resolver, exec_world_congr / siblings_undisturbed_world, '
                 'history_independent / kth_response / serveAll_docs_unchanged / memo_sound / memo_across_requests_unsound (what may persist between '
                 'requests), default_resolver_*, skip_include*, alias_merge, keys_document_order, abstract_possible_type. Tied by ordered-data / '
                 'error-multiset correspondence real executor vs model vs Lean spec on generated schemas, valid operations (multi-spread with conditions, '
                 'same-key merges under abstract types, divergent argument defaults per implementation, null-bound directive variables), worlds (dicts, one '
                 'Python class for all members of an abstract type, lazy iterables and resolve_type that raise) and request histories (fresh and REUSED parsed '
                 'documents, document unchanged afterwards). ADDED IN THE BUG-HUNT ROUNDS: worlds whose resolvers mutate their list / dict arguments '
                 '(per-execution marks: ArgumentSharedBetweenExecutions, ArgumentLeakedFromEarlierRequest), resolvers calling info.selected_fields(), type '
                 'resolvers returning type OBJECTS (own schema and clone), argument names colliding with the resolver protocol, deep-nesting probe for the '
                 'generic executor. ADDED IN THE EXTENSION ROUND: memo_by_leading_node_unsound (a sub-selection memo keyed by the leading node is not '
                 'transparent: witness of seeded C04-11 / C05-12); a DETERMINISTIC block (corr/C04_runtimes.py, no randomness) runs fixed requests through '
                 'graphql_blocking, process_graphql_query (generic Executor) and py_gql.graphql on an asyncio loop whose coroutine resolvers complete in '
                 'reverse / mixed / hashed order, each compared with the specification (ordered data, error multiset); generated classes leading-node and '
                 'same-key-groups (gen/leading_node.py: one field node heading two different merged node lists, several merged groups of one type in sequence) '
                 'on a fixed schema and on every generated schema, under fixed worlds. ADDED IN THE BUG-HUNT ROUNDS: AFTER THE AUDIT (C04-F1/F2/F3): '
                 'serializeInt of a bool is the integer 1 / 0 as /repo HEAD (d72dd53) in the model and in the Python reference (fixed case '
                 'bool-at-int-position of the default-resolver stream; json.dumps tells true from 1); history_independent and exec_deterministic are '
                 'documented as true by construction (the tie is the history stream); errors_at_or_below_nulls is null_error_bijection under an honest name - '
                 'the statement is one-directional, the global converse is open. Named probes of two outside reports (corr/C04_hunt1.py, no randomness): '
                 "exponential fragment expansion in the executor's collect_fields (node multiplicity 2**n at n = 6, 9, 12 on a validated document with ONE "
                 'field node) and `@skip(if: true)` next to an `@include` that cannot be coerced (field / inline fragment / spread, both executors).',
         'note': "Trusted: Lean kernel; generators; 'the Document is never written' and 'one executor per request' are tied to the code by the to_dict() "
                 "before/after oracle and the history streams; `__schema`/`__type` are C15's model. Known finding H4 (generic Executor RecursionError from "
                 'depth 77 through [T!]!). Repaired: H2 (defaults handed out uncopied), H5 (argument values shared between executions), H6 (arguments named '
                 'root/context/info). The asyncio slice makes completion order a function of the request with `await asyncio.sleep(0)` (all completion orders, '
                 "thread pools: C08). TypesWf (null_error_bijection) follows from the computable typesWfB the driver evaluates (C05's typesWf_of_check). Known "
                 'findings H14 (collect_fields expands a fragment once per sibling inline spread while the visited set is empty: 2**n nodes, the 1.7 kB '
                 'document with n = 30 is never answered; the one-line repair contradicts the modelled `_seen_fragments` quirk), H15 (both directives are '
                 'evaluated eagerly, so a true @skip does not protect from an uncoercible @include; the repair changes modelled behaviour of C04 / C19).',
         'technique': 'Lean 4 proof (executor model = spec, acyclic => responds, bijection, locality, history independence) + world-resolver correspondence'},
 'C05': {'text': 'validated_no_internal_error (full): under SchemaOk, the declarative ValidDoc (fields exist, leaf <=> no sub-selection, type conditions '
                 'composite, spreads defined, fragments well-typed, acyclic and uniquely named), MergeSafe (the declarative form of '
                 'OverlappingFieldsCanBeMerged: same-key fields whose parent types can overlap have the same name and arguments, recursively; mergeSafeB_sound '
                 'gives a sound evaluator) and a typed world (raising iterables and resolve_types included) no request ends in an internal exception, for '
                 'EVERY variable assignment (a failing @skip/@include condition is a field error since fix D1: noInt_catchDirective); validated_shape / '
                 'validated_shape_field; the bridge rules_accept_validDoc / rules_accept_cannot_go_wrong from the C06 rule models (rule_*_iff theorems) to '
                 'ValidDoc, with RuntimeTie naming what rested on the run-time tie; witnesses that MergeSafe is strictly weaker than the old KeyConsistent '
                 'premise on validator-accepted documents. Tied by an adversarial stream of invalid/mutated documents: validate_ast must return; accepted => '
                 'ValidDoc and MergeSafe (Lean-evaluated) and execution under typed worlds raises no internal exception, has the schema shape and one '
                 'unambiguous value per response key. ADDED IN THE BUG-HUNT ROUNDS: rules_accept_responds, bridge_field_args, bridge_rejected_argument (the '
                 'bridge carries argument tables computed by the C07 model), fragsAcyclic_of_noCycles, fragment-cycle-behind-entry documents, flat '
                 'fragment-chain probe. ADDED IN THE EXTENSION ROUND: the chain is restated from what `validate_ast(...) == []` really gives. ValidDocR drops '
                 "the clause 'the operation has a root type' (the validator does not check it: `mutation { a }` is accepted on a schema without a mutation "
                 'type and execution answers a non-internal error): validated_no_internal_error_rootless (validated_no_internal_error is its corollary), '
                 "rules_accept_validDocR, rules_accept_cannot_go_wrong_rootless; accepted_cannot_go_wrong has the premise 'all 26 rule visitors silent'; the "
                 'schema hypotheses SchemaOk / SchemaWf / RootsAreObjects / TypesWf follow from computable checks (Spec/SchemaChecks.lean; schemaOk_of_checks, '
                 'rootsAreObjects_of_check, schemaWf_of_checks, typesWf_of_check, accepted_cannot_go_wrong_checked) which the driver evaluates on the schema '
                 'of every request; the executor model reads the schema only through six accessors, each invariant under listing the built-in scalars '
                 '(Lemmas/C05Builtins.lean, execute_congr), so accepted_cannot_go_wrong_executed speaks about the description the driver executes '
                 "(execute_lists_builtins, worldTyped_withBuiltins); rules_accept_ranked / rules_accept_refines_spec hand C04's refinement theorem its only "
                 'hypothesis. Deterministic classes under FIXED worlds: divergent-args, leading-node / same-key-groups (gen/leading_node.py), '
                 'exclusive-then-strict (gen/overlap_memo.py: a (selection set, fragment) pair compared first under exclusive parents, then strictly), '
                 'rootless operations, scale probes at depth 50 (must pass) and 200. ADDED IN ROUND ex2: MergeSafe is NO LONGER A HYPOTHESIS - '
                 "mergeSafe_of_clause derives it from the clause of 5.3.2 on the validator's document (scope correspondence executor scope -> fields the "
                 "validator's search collects: Lemmas/C05MergeScope.lean scope_coll; _same_arguments on distinct argument names => equal coerced argument "
                 'tables: Lemmas/C05MergeArgs.lean argsTable_of_sameArguments; overlapping parents are not mutually exclusive: not_exclusive_of_overlap; '
                 "_types_conflict = false on output types is sameShape; termination by C04's Ranked depth), mergeSafe_of_silent from the silent MEMOISED "
                 "overlap search /repo runs (C06's rule_overlapping_fields_memo_iff_wf) plus the clauses of seven other silent rules, and "
                 'accepted_cannot_go_wrong_merged: all 26 rule visitors silent (C06.SilentM) => no internal exception, without MergeSafe. '
                 'parsed_names_nonempty / lexed_names_nonempty: fragment names, aliases, field and spread names of parse(text) (lexer model + parser model, '
                 'all flags) are non-empty. accepted_cannot_go_wrong_merged_executed / accepted_cannot_go_wrong_computable: the same about the description the '
                 'driver executes, every hypothesis except WorldTyped a computable check (schemaChecksB, fieldOwnersB, docChecksB = wfIdsB + noMetaSubsB + '
                 'aliasesB + non-empty fragment names + noIntrospectionB, each with a soundness lemma). The translation eDoc (validator-side document -> '
                 'executor-side document) on which the whole chain is stated is now a model file (ExecOfValidate.lean) and the driver op `edoc` checks, for '
                 'every accepted document, that eDoc of the validator-side JSON IS the document the driver executes (field locations apart) and that '
                 'docChecksB holds. New fixed class lookalike-member (a fragment on an interface must not apply to a union member with a same-named field that '
                 "does not implement it: mutation M4 had been missed by C04 and C05). C05-1 of the hunter is C17's documented refusal (nothing added). AFTER "
                 'THE AUDIT (C05-F1..F5): accepted_responds_computable (positive half: a response exists for some fuel, is fuel-independent and is not an '
                 'internal exception), accepted_same_key_unambiguous, and Props/C05_nocrash.lean: the FULL statement ValidateNeverCrashes (the chain /repo '
                 "runs never ends in a crash) is NOT proved; of the model's five crash sites two are closed (check_scalar_never_raises: dead code; "
                 "cycle_report_never_raises under NoSelf), the overlap search alone is C06's overlap_memo_run_never_crashes, the two stack sites "
                 '(KnownDirectives, UniqueInputFieldNames) and the chain lift are open.',
         'note': 'Trusted: Lean kernel; generators. `__schema`/`__type` selections are outside this executor model (C15). The 26 rules themselves belong to '
                 'C06. Repaired on the way: V1, V2, V7, D1 (directive condition null at run time), E1. Known finding H2 (RecursionError on a flat chain of '
                 "about 975 fragments). Repaired: H1 (selected_fields strictness), overlap memo (RecursionError on a cycle through a field's sub-selection). "
                 "Hypotheses left in accepted_cannot_go_wrong_merged: NoIntrospection (`__schema` / `__type` are C15's model; `__typename` IS inside the "
                 "theorem), non-empty fragment names and aliases (parser guarantee: parsed_names_nonempty proves it for the parser MODEL's documents; the "
                 "validator's documents are built by the harness from the real parser's tree, so the transport is not a Lean statement), FieldOwners (only "
                 'object / interface types carry fields: fieldOwnersB, evaluated by the driver on every schema), DocChecksMemo (distinct selection-set '
                 "identities, no meta field with a sub-selection: the two static checks of C06's rule_overlapping_fields_memo_iff_wf), WorldTyped (part of the "
                 "statement). Residuals named by the audit: 'validation never raises' has no theorem for the chain (ValidateNeverCrashes open; tied by the "
                 'validate-raises oracle); the premise SilentM is per rule ALONE and ignores the crash flag (premise side: the theorem covers more documents; '
                 "the link from the real chain's verdict is C06's open chain-level statement); Exec.argsEntry folds internal / fuel failures of argument "
                 'coercion into a field error, so the conclusion is silent about exceptions inside coerce_argument_values (correspondence only). Known '
                 'findings H13a (validate_ast RecursionError from ~150 nesting levels of selection sets / ~200 of input object literals), H13b (generic '
                 'Executor RecursionError on a 200-fragment field-nested chain that validates).',
         'technique': "Lean 4 proof (type soundness of the executor model under the validator's guarantees) + adversarial validate/execute oracle"},
 'C06': {'text': "MODELLED: the whole validation chain - TypeInfoVisitor's stacks (list-item types included), ChainedVisitor with the repaired SkipNode "
                 'semantics, all 26 rule visitors with their accumulators, VariablesCollector (fixes V3/V4), the fragment-cycle search, and the field-merge '
                 'search of OverlappingFieldsCanBeMerged in BOTH forms: un-memoised (code before fix 7e75356) and the MEMOISED search /repo runs (runM / '
                 'overlapMemoRun: compared-pairs memo keyed by the triple, compared-fragments set, parent-type cache). The rule list must equal '
                 'SPECIFIED_RULES RE-EXTRACTED from validate.py each run (rules_match_source). PROVED: every one of the 26 rules has a rule_*_iff theorem - '
                 "the visitor, run through the model's chain on any document and schema, is silent exactly when its declarative clause holds (ProvedAll = "
                 'Rule.all, Spec.Unproved = []); for the overlap rule as /repo runs it rule_overlapping_fields_memo_iff (memoised rule silent <=> clause of '
                 '5.3.2) under ParentsAgree, no fragment named "" and WfIds only (no NoCrash, no rank bound: overlap_memo_terminates, rankSynB_of_wfIds), with '
                 'overlap_memo_complete / overlap_memo_never_loses / overlap_memo_neutral_side and runM_alone_eq (the chain the driver runs with the rule '
                 'alone IS overlapMemoRun). Headline statements for the validator /repo runs (Props/C06_head_memo.lean): verdict_iff_all_memo, '
                 'accepted_spec_valid_all_memo, spec_valid_accepted_all_memo, attribution_all_memo, verdict_memo_neutral, with DocOkM = wfIdsB (parser '
                 'guarantee, checked by the driver on every document), noMetaSubsB (no sub-selection below __schema/__type/__typename: counted exclusion), '
                 'non-empty fragment names, SchemaOutputs; the same for the un-memoised search with the static rank check (Props/C06_head.lean). The clauses '
                 "state what the CODE implements; where that is not the specification's clause the difference is a machine-checked refutation "
                 '(values_spec_clause_refuted = V8, overlap_full_statement_refuted, V3/V4 order dependence of the unfixed collector). INVARIANCE under the six '
                 'transformations of the statement: rule by rule for ALL 26 rules (SilentM: the overlap rule is the memoised one /repo runs) '
                 'perm_definitions_all26, tr_invariance_all26 with perm_selections_all26 / perm_arguments_all26 / alpha_fragments_all26, alpha_aliases_all26, '
                 'alpha_variables_all26 (Props/C06_inv11..13.lean) - the 25 other rules by the *_all25_partial theorems, the overlap rule by transporting the '
                 'clause of 5.3.2 along a SIMULATION of documents (Lemmas/ValidateOverlapSim*.lean: OvSim, OvSim.clause_iff; instances for selection / '
                 'argument order + fragment renaming, aliases, variables) + rule_overlapping_fields_memo_iff; and for the VERDICT of the chain (every rule '
                 'silent) six_transformations_verdict_memo (Props/C06_inv14.lean: tr_ / alpha_aliases_ / alpha_variables_ / '
                 "perm_definitions_verdict_invariance_memo), whose only hypotheses are DocOkM, SchemaOutputs, injectivity of the renamings and 'no empty name "
                 "produced' - unique argument / fragment / variable names, operation keys and ParentsAgree are clauses of other rules of the same chain. "
                 'Necessity witnesses: perm_arguments_overlap_needs_unique_argument_names, alpha_variables_overlap_needs_injectivity, '
                 'alpha_aliases_overlap_needs_injectivity. OverlapSide is characterised exactly (overlapSide_iff_tableAcyclic), which puts duplicate fragment '
                 'names inside the memo-neutrality theorem (overlap_memo_neutral_tableAcyclic). Why noMetaSubsB is a real exclusion is machine-checked '
                 '(Props/C06_overlap_meta.lean: meta_sibling_hides_report, parentsAgree_false_below_meta, memo_iff_needs_parentsAgree; reproduced on the real '
                 'validator, corpus meta_subselections). THE VERDICT OF THE CHAIN IS THE CONJUNCTION OF THE RULES RUN ALONE (Props/C06_chain.lean; until now '
                 'only exercised): frame property of the 26 visitors (framed_enterRule, framed_enterRuleM: a rule reads / writes only its own part of the rule '
                 'state, prepends only its own errors, its SkipNode flag depends on its own part; Lemmas/ValidateChainFrame*.lean, 26 rules x 14 node kinds), '
                 'chainPar_silent_iff (any list of pairwise different rules: the chain records no error iff every member alone records none; skip_reports + '
                 'equal flags => nobody skips while one side is quiet), hence chain_silent_iff_alone, verdict_iff_alone and, for the chain /repo runs (runM = '
                 'the model the driver answers with), chainM_silent_iff_alone, chainM_silent_iff_spec / verdictM_iff_spec (accepted iff no exception and the '
                 "clauses of all 26 rules hold; headline for /repo HEAD: verdict_chain_iff), chainM_attribution (exactly one clause violated => the chain's "
                 "error list contains an error of THAT rule's visitor; chainPar_attribution) and chainM_six_transformations (verdict of the chain invariant "
                 'under the six transformations). The older *_all* theorems are about the 26 rules run ALONE (said in each doc comment); Silent counts '
                 'recorded errors only, the exception flag is an explicit conjunct of the chain statements. Structural theorems for EVERY rule list: '
                 'typeinfo_balanced / selections_balanced / definitions_balanced, skip_reports (a rule that skips has just added an error), '
                 'rule_single_field_subscriptions_declarative_iff (CollectFields restricted to keys = reachable response keys). TIED by correspondence (model '
                 'chain vs validate_ast: verdict on every document; set of reporting rules on documents with at most one injected violation; every rule '
                 'standalone; memoised vs un-memoised model cross-check per document; schema and rule-instance histories; derived schemas) and by the direct '
                 'oracle on the real code: valid-by-construction => no error, each of 46 labelled single-rule violations => an error attributable to that '
                 'rule, verdict unchanged under the six transformations (+ whitespace/comma/comment re-spelling), deterministic block memo_mode_table (memo '
                 'key = triple).',
         'note': 'Trusted: Lean kernel; generators / injectors (validity by construction, one labelled violation each); is_subtype / types_overlap '
                 'hand-modelled (re-extracted where the translator applies). ONLY EXERCISED (no theorem): that the chain raises no exception (the crash = none '
                 'conjunct of verdictM_iff_spec; every raising input of the real validator is reported by the correspondence); the un-memoised half of '
                 'OverlapMemoNeutralStatement on documents whose fragment table has a cycle of bare spreads (OverlapMemoNeutralOpenRegion; cross-checked per '
                 'document, memo:crosscheck); documents with __schema { .. } / __type { .. } sub-selections are outside the clause-level statements '
                 "(ParentsAgree is false there and the rule's equivalence fails without it: memo_iff_needs_parentsAgree; counted, compared with the real "
                 'validator; MetaExtensionStatement is open); fragment variable definitions (parse option) are corpus-tested against the real code only '
                 "(model-does-not-cover:parse-options). Known finding V8 (list literal at a non-list position accepted: the code's clause is proved, the "
                 "specification's clause refuted). Repaired on the way: V3, V4, V7, V9, V10, V11, H3, H5, H6, enter_list_value (C06/1, C06/2), overlap memo "
                 '(fix 7e75356).',
         'technique': 'Lean 4 proof (all 26 rules: model silent <=> declarative clause, memoised overlap search included; verdict of the chain = conjunction '
                      'of the rules alone; attribution; invariance under six transformations) + full-chain model correspondence + labelled-violation / '
                      'metamorphic oracle'},
 'C07': {'text': 'Lean model of coerce_value / value_from_ast / coerce_variable_values / coerce_argument_values / scalar parsers with the Int branches, the '
                 'Float finiteness guard and the overflow handling RE-EXTRACTED / TRANSLATED from scalars.py each run (coerceInt_branches_spec) and a Lean '
                 "model of Python's int()/float() lexemes (PyNum.lean: no harness-observed annotations remain): variable_sound, literal_sound, "
                 'variables_sound, arguments_sound (=> Conforms), int_accepts_iff / float_accepts_iff (exactly which JSON inputs are accepted; inf, nan and '
                 'too-large integers are REJECTED, never raised: fix A6), literal_variable_equiv (same outcome on both routes; custom scalars as arbitrary '
                 'parser parameters under CustomAgree), omission/wrapping/rejection theorems, fuel-free restatements, coerce_value_never_raises / '
                 'builtin_scalars_never_raise / variables_never_raise (any JSON value ends in a value or a rejection), the bridge validated_arguments_sound '
                 'and the TRACE theorems over whole response trees (every_call_conforms_tree, rejected_field_is_local, '
                 'no_resolver_call_on_rejected_variables_tree, every_validated_call_conforms_tree). Tied by correspondence on all type expressions x literals '
                 'x JSON values x provided/omitted/null, an extremes stream (inf, nan, 10^400, containers nested to 20 000 levels: fix A7), a pynum stream '
                 'against the real builtins, and the calls recording resolvers actually see (order and kwargs; divergent interface implementations sharing one '
                 'field node; DERIVED schemas must hand resolvers the same internal enum values and defaults). ADDED IN THE BUG-HUNT ROUNDS: litAdmitted / '
                 "customHasParseLiteral with the guard re-extracted from value_from_ast (scalarLiteralGuard_spec), untypedLiteral (the stand-in scalar's "
                 'parse_literal), defaultScalarParse_spec (non-finite values refused at any depth, re-extracted), coerceInt_branches_spec after the bool '
                 'repair, nested-variable stream through the full entry point. AS BUILT NOW: model files Coerce.lean / CoerceExec.lean / PyNum.lean, '
                 'specification Spec/Coerce.lean (Conforms). The route-equivalence headline is now literal_variable_equiv_at / literal_variable_equiv_total_at '
                 '(per TYPE: the two parsers of a custom scalar have to agree only at the custom-scalar positions reachable from the type, CustomAgreeOn reg '
                 '(Reach reg ty)), unconditional for types and schemas without custom scalars (literal_variable_equiv_builtin, _no_custom, '
                 'same_arguments_builtin, builtin_scalars_agree); customAgree_necessary and default_scalar_routes_differ show the hypothesis cannot be dropped '
                 "(finding A10). literal_variable_equiv_partial keeps 'natural JSON kind' explicit: literal_variable_equiv_refuted_cross_kind / "
                 'rejects_cross_kind_refuted are the machine-checked witnesses of finding A8 (lenient built-in parsers, pinned by the suite). The history '
                 'stream has a DETERMINISTIC derivation probe (det_probe: fixed clone / extend / camel-case / visibility plans on a fixed schema with enums '
                 'keyed by internal value, python-named input fields and defaults; fixed requests through every derived schema). AUDIT REPAIR (co3): the '
                 'hypothesis RegOK was FALSE for every registry holding an SDL custom scalar (CustomOK admitted the literal `null`, which the stand-in scalar '
                 'answers with None, against RegOK.customNotNone): every soundness theorem was vacuous for such schemas (audit C07-F1). CustomOK now speaks '
                 "only of the inputs value_from_ast really hands a scalar's parser (a non-null JSON value; a literal other than `null` / `$x`); all soundness "
                 'theorems are re-proved with the STRONGER Conforms and the WEAKER hypothesis. customNotNone_default / customNotNone_ofTypes / '
                 'customNotNone_regOfSchema PROVE the hypothesis for the stand-in scalar (whatever the extracted flags), regOK_ofTypes_iff / '
                 'regOK_regOfSchema_iff reduce RegOK of the registries the library builds to the four conditions on the declared types, '
                 'regOK_satisfiable_with_default_scalar is the non-vacuity witness (scalar Any, enum, input object with the scalar at nullable / non-null / '
                 'list-item positions and a declared default), customNotNone_still_excludes shows the condition still excludes a user scalar answering None. '
                 'VarsFit / VarsAllowed got the constructor scalarPos (a list / object literal at a custom-scalar position: audit C07-F2, the hypotheses were '
                 'underivable there). One theorem per headline (variable_sound, _total, literal_sound, _total, variables_sound, arguments_sound, '
                 'validated_arguments_sound, every_validated_call_conforms, every_validated_call_conforms_tree: *_applies_with_default_scalar, '
                 'Props/C07_regok_apps.lean) discharges ALL its hypotheses on that registry and concludes about a value the stand-in produced; the named probe '
                 'regok-witness (corr/C07_regok.py) runs the same inputs through build_schema / graphql_blocking / coerce_value / value_from_ast / '
                 'coerce_argument_values and probes customNotNone on the live default_scalar.',
         'note': 'Trusted: Lean kernel; translator; CustomNeverRaises / CustomAgree are hypotheses about user-supplied scalar parsers; repr(float) as wire '
                 'spelling. Nested lists of lists in the trace model and non-ASCII digits in lexemes are exercised, not modelled. Known findings A9 (omitted '
                 'variable inside an object / list literal; pinned), A10 (the stand-in scalar keeps number literals as text: inline differs from variable; '
                 'witness not CustomAgree). Repaired: E1 (enum reverse map), B1 (bool as Int). Only exercised, not modelled: the schema-derivation operations '
                 "themselves (C14's model), resolver memoisation per (field definition, node). Declared defaults are handed over as declared: "
                 'RegOK.defaultsConform is a premise (established by SDL-built schemas); for code-first schemas only DeclaredOK holds and the statement is '
                 "refuted (defaults_filled_statement_refuted, known finding A11). Named probe default-shapes: A11, T14 (C14's finding at the resolver), A12 "
                 '(scalar implemented by a visitor: proposed fix C07-A12). A refused derivation of the deterministic probe is a reported failure. Still open '
                 "from the audit: F3 (VarsAllowed / ArgsOK / RegTypesOK are not derived from the validator and schema-validation models), F4 (the 'no resolver "
                 "call' theorems unfold C07's own trace executor), F5 (inline = variable at function level only), F6, F7, F8.",
         'technique': 'Lean 4 proof (coercion soundness, per-type route equivalence, never-raises, before-resolver trace over response trees) + '
                      'source-translated scalar branches + resolver-kwargs correspondence incl. derived schemas'},
 'C08': {'text': 'Lean model of chain / unwrap_future / gather_futures (counter state machine) / asyncio gather_values and of the generic Executor over a '
                 'simplified operation form with schedule-driven completion (modes sync, deferred, nested, already-finished): gather_slots, '
                 'gather_first_exception, chain_else, unwrap_*, gather_values_patch, schedule_independent, unexpected_surfaces, async_eq_blocking (for every '
                 'schedule: same data, error lists are permutations), always_terminates (Live invariant over whole executor trees), all full. Tied by running '
                 'the REAL combinators/executors under a controlled scheduler (manual executor incl. completion at submit; harness-resolved futures on a '
                 'private asyncio loop) for all schedules of <=4/6 tasks in four configurations, plus REAL 1- and 2-worker pools with in-flight resolvers and '
                 'nested futures; pairwise equality oracle, trace correspondence, confirmed watchdog for hangs. ADDED IN THE BUG-HUNT ROUNDS: named probes run '
                 'first in every run: generator history (isawaitable cache), request-aborting classes per configuration, odd exception classes (StopIteration, '
                 'StopAsyncIteration, BaseException) under all schedules with a confirmed watchdog, deep nesting per runtime, abort order. ADDED IN THE '
                 'RUNTIME ROUND: RuntimeRace.lean splits gather_futures.on_finish into the micro-steps LOAD / STORE / TEST of `done += 1` ... `if done == '
                 'target_count` run by n workers under any interleaving: gather_nonatomic_lost_update(_3, _preempted) and gather_terminates_nonatomic_refuted '
                 '(a lost update leaves the aggregate Future unset although every callback returned), gather_atomic_sets_outer and gather_locked_sets_outer '
                 '(atomic increment, or the non-atomic steps under a lock from LOAD to STORE: for every n > 0 and EVERY interleaving the aggregate is set '
                 'exactly once and no update is lost). probe_gather_lost_update replays the witness schedule on the REAL gather_futures (opcode tracer + '
                 'second thread, preemption forced between LOAD_DEREF and STORE_DEREF). Every wait of the harness on the code under test is bounded: a '
                 'deterministic deadlock detector in the single-threaded manual-executor worlds (a Future.result() on a pending future there can never '
                 'return), SIGALRM watchdogs around process_graphql_query itself on real pools, a per-stage wall-clock backstop '
                 '(never-completes:stage:<name>), blocked pool workers detached at exit. ADDED IN THE SECOND RUNTIME ROUND: finding E2 is INSIDE the model '
                 '(AsyncExecE2.lean): a list field whose completion raises ResolverError after earlier items were completed (lazy iterable raising '
                 "mid-iteration / abstract entry whose resolve_type raises) leaves the earlier items' Futures ORPHANED - their tasks stay in the pool queue, "
                 'their callbacks still add errors to the shared executor, the response is assembled when the ROOT Future finishes. Props/C08_e2.lean: '
                 'e2_blocking_reports_every_item_error (BlockingExecutor, every operation of the form: errors = before ++ every error of every earlier item ++ '
                 "the list's own ++ after), e2_deferred_loses_item_error / e2_deferred_may_keep_item_error (same operation, two completion orders), "
                 'e2_alone_schedule_irrelevant + e2_alone_loses_deferred_item_errors (no sibling root field: lost in EVERY schedule), '
                 'async_eq_blocking_e2_refuted. Tied by driver ops e2-async / e2-blocking and the deterministic stage e2-model (112 operations, EVERY '
                 'completion order on the manual executor + BlockingExecutor, ~2 250 runs per check: status, data, error multiset, queue sizes, call/done '
                 'trace). Props/C08_race_n.lean: gather_nonatomic_lost_update_general / gather_terminates_nonatomic_refuted_every_n - the lost update of the '
                 'non-atomic `done += 1` for EVERY n >= 2 workers and every number of plain entries (all LOADs, all STOREs, all TESTs: n - 1 increments lost, '
                 'aggregate never set). ADDED IN THE SECOND RUNTIME ROUND: AUDIT ROUND 2: the counter of gather_futures AS SHIPPED (fix 6013951: `with lock: '
                 'done += 1; count = done`, last-one test on the local copy) is its own machine (RuntimeRaceShipped.lean) - gather_shipped_sets_outer_once '
                 '(every n > 0, EVERY interleaving of the COUNT / TEST steps: set exactly once, no InvalidStateError, no update lost) - and WHICH variant the '
                 'tree has is re-extracted on every run (Generated/GatherLock.lean, gather_shipped_variant: the Props build breaks when the lock or the local '
                 'copy disappears; mutation trial: caught, plus the lost-update probe). pending_only_if_schedule_exhausted (a run is `pending` only when every '
                 'schedule entry was used for one completion and tasks are still outstanding), blocking_runtime_never_pending (all resolvers synchronous = '
                 'generic executor on BlockingRuntime: outcome without any completion), asyncio_gather_delivers_what_gather_futures_delivers (for the same '
                 "per-entry results asyncio's index patching and gather_futures' slot collection deliver the same list).",
         'note': 'Trusted: Lean kernel; generators; asyncio task scheduling is only exercised. Known finding E2 (a completion that raises AFTER sub-resolvers '
                 "of the same field were started abandons them). Parallel interleaving of callback bodies on worker threads is modelled for gather_futures' "
                 'counter only (RuntimeRace.lean: LOAD / STORE / TEST micro-steps, finding E2r, repaired by fix 6013951); other callback bodies are atomic in '
                 'the model. Hang verdicts are progress-based and confirmed by a second isolated run. Known findings H5 / H5b (deep nesting: thread pool never '
                 'completes from 60 levels, generic executor RecursionError from 80), H6 (which of two request-aborting siblings is reported depends on '
                 'completion order). Repaired: H1, H3, H4. Repaired: E2r (the lost update, latent under the CPython 3.12 GIL; fix 6013951 takes the increment '
                 'under a lock, which is the machine of gather_locked_sets_outer; the probe now checks that the forced preemption no longer loses an update). '
                 'async_eq_blocking has no completeness hypothesis on the schedule (it speaks about whatever schedule produced a result). Abstract types, lazy '
                 'iterables and completion-time ResolverErrors after sub-resolvers started (E2) are outside the Lean executor model (exercised, oracle only). '
                 'E2 (known finding) is now modelled for the form `before / failing list field with a synchronous resolver / after` on the thread-pool '
                 'algebra; a failing list below a DEFERRED resolver, failing completions nested deeper, and asyncio (where the orphaned coroutines are never '
                 'awaited: always lost) stay oracle-only. General statements for the deferred side with siblings (data equal, errors a sub-multiset of '
                 "BlockingExecutor's) are not proved - witnesses and the sibling-free case only. STATED GAPS (audit round 2): (1) NO executor-level theorem is "
                 'about the asyncio runtime: async_eq_blocking / always_terminates / serial_order are about `runAsync` over the callback algebra of the thread '
                 'pool; there is no `runAsyncio` interpreter (lazy coroutines, `async def` combinators, cancellation of siblings) - asyncio is tied by the '
                 'controlled-schedule correspondence and the pairwise equality oracle only, plus the one combinator-level lemma above. (2) The '
                 'gather_nonatomic_* / gather_terminates_nonatomic_refuted(_every_n) theorems are about the PRE-FIX counter and are counted as obligations '
                 'although they document a repaired defect. (3) Every executor-level theorem treats a completion and its callbacks as ONE step: justified for '
                 "gather's counter by the lock (theorem above), an assumption for the other callback bodies beyond one worker; the locked-counter theorem is "
                 'not lifted into the executor tree. (4) CLOSED: always_terminates alone is deadlock-freedom; terminates_within_bound (Props/C08_progress.lean '
                 'over Lemmas/ExecBound.lean) adds the bound - `weight op` = one per deferred resolver, two per nested one; EVERY schedule with at least that '
                 'many entries ends with a response or a failure, never `pending` (potential queue length + tasks still to be submitted never increases under '
                 'deliver).',
         'technique': 'Lean 4 proof (combinator state machines, schedule independence, termination) + controlled-schedule exhaustive correspondence'},
 'C09': {'text': "execute_fields_serially as the code's state machine over the C08 algebra: keys_in_order, failure_does_not_stop, blocking_serial, "
                 'serial_order (trace form, every schedule: no resolver of top-level field k+1 starts before everything of field k has finished) with '
                 'serial_order_tree, all full. Tied by call/done event traces of the real executors under all completion orders (four configurations, real '
                 'small pools, fragment-only mutation roots, nested futures failing at each position) and the direct trace-predicate oracle. ADDED IN THE '
                 'BUG-HUNT ROUNDS: interleaving_stage: line-level interleavings of the chain callback against _next on a real one-worker pool, driven by a '
                 'tracing hook (library untouched), each failure confirmed by re-run. ADDED IN THE RUNTIME ROUND: the `args` queue as an invariant over ALL '
                 'steps of EVERY schedule (Lemmas/ExecSerialOrder.lean): serial_queue_invariant (top-level invocations so far ++ queue = document order while '
                 'the serial callback is waiting; a prefix once it finished or failed), top_calls_in_document_order, jth_call_is_jth_field, '
                 'no_later_call_before_earlier_done (at each top-level call: everything invoked before has finished AND it is exactly the next field in '
                 'document order), serial_queue_head_called_next (one step: `_next` first invokes the head of the queue), failure cases '
                 'nonnull_violation_at_root_continues and unexpected_stops_later_fields (sync: propagates out of `_next`; deferred: the chain fails; no later '
                 "top-level resolver runs). ADDED IN THE SECOND RUNTIME ROUND: today's LOOP form of execute_fields_serially (`while True` + inline/ran "
                 'hand-over; AsyncExecLoop.lean: serialLoop, applyContL) against the RECURSIVE form all other C09 theorems are about: '
                 'serial_loop_eq_recursive_call (same executor state, same Future up to unwrap_future, per call) and serial_loop_eq_recursive_run (EVERY '
                 'operation, EVERY completion order: Loop.runAsync = runAsync - outcome with the error list in order, call/done trace, queue sizes), via '
                 'Lemmas/ExecLoop.lean (nodes below the serial spine carry no serial callback and are preserved by every combinator and by deliver). Driver op '
                 'async-loop: the loop model is compared with the real executors on every mutation run (~3 800 per check). ADDED IN THE SECOND RUNTIME ROUND: '
                 'finding E2 for MUTATIONS inside the model (AsyncExecE2.lean: executeSerial - the failing list field first, then the serial chain over the '
                 'remaining fields): Props/C09_e2.lean e2_serial_overlap_witness / e2_serial_overlap_outcome (`mutation { m1 { a } m2 }`: `call m2` precedes '
                 '`done m1[0].a`, the response is assembled without it), e2_blocking_serial_witness (BlockingExecutor strictly serial), '
                 'serial_order_e2_refuted (the statement of serial_order is FALSE once a list completion may raise after sub-resolvers started). Tied by the '
                 'mutation half of the stage e2-model (56 operations, every completion order on the manual executor: status, data, errors, queue sizes, '
                 'call/done trace; verdict = the known finding E2 under c09:not-serial:threadpool:completion-raises-after-sub-resolvers). ADDED IN THE SECOND '
                 'RUNTIME ROUND: AUDIT ROUND 2: blocking_serial_order - the statement of serial_order at TRACE level for BlockingExecutor (its trace is a '
                 'sequence of adjacent `call p, done p` pairs: at every resolver invocation everything invoked before has finished), so `under every runtime` '
                 'no longer rests on the unfolded definition blocking_serial.',
         'note': 'Trusted: Lean kernel; generators. Known finding E2 (see C08) also shows as a serial-order violation when a completion raises after its '
                 "sub-resolvers started. Repaired: H1 (race in the serial chain introduced by an earlier repair). The model's `_next` is the recursive form; "
                 "the loop + lock of today's execute_fields_serially is tied to it by the trace correspondence and the interleaving stage only. With "
                 "serial_loop_eq_recursive_run the residual 'the model's _next is the recursive form' is closed for ATOMIC completions; the lock of the loop "
                 'form (cb on another thread between map_value returning and the hand-over) is exercised by interleaving_stage only. The failing field must be '
                 "the FIRST mutation field in the model (a failing field behind a deferred one would have to travel inside the serial callback's queue of "
                 'plain fields).',
         'technique': 'Lean 4 proof (serial queue machine) + controlled-schedule trace oracle'},
 'C10': {'text': 'Lean theorems about the hand model of index_to_loc / to_dict of every error class / GraphQLResult.response / the staged '
                 "process_graphql_query / the executors' error capture: loc_bounds (all texts, all positions, LF/CR/CRLF), index_to_loc_total_iff, "
                 'data_omitted_iff, null_error_bijection, request_bijection with root_failure_bijection / root_failure_wellformed (the root selection set '
                 'cannot be collected: data null, one error without path), null_sites_nodup, null_sites_are_null, exactly_one_error_per_site, '
                 'result_wellformed, executed_response_wellformed, response_wellformed_partial (+ refutation of the full statement: the misspelt `columne` '
                 'key, finding X1); response keys and the data=None flags of the _abort calls are re-extracted from source each run (static shape first, '
                 'DYNAMIC enumeration of the finite domain of error objects / abort sites when the shape is not recognised; the route is recorded in the '
                 'evidence); tied by stage-outcome correspondence and a direct WellFormed + site/error multiset oracle on four configurations x four '
                 'submission forms (text, parsed document, parsed without locations, hand-built without source) incl. execution-time argument coercion '
                 'failures under lists, completion-time ResolverErrors, run-time directive failures, numeric extremes, hostile text in every string that '
                 'reaches an error message, and shared error instances. ADDED IN THE BUG-HUNT ROUNDS: per-request worlds (context_value), late-workers stream '
                 'and the self-check harness:foreign-world-record, non-string error messages, non-finite values at custom-scalar positions (variables and '
                 'results), extensions outside the documented contract counted separately. AS BUILT NOW: model file Response.lean (+ '
                 'Generated/ResponseKeys.lean), specification Spec/ResponseSpec.lean (WellFormedK with the column key as a parameter), Spec/NullSites.lean, '
                 'Spec/TreeOk.lean. Headlines: response_wellformed_unless_syntax_error (section 7.1 AS WRITTEN for every request that parses), '
                 'response_wellformed_partial (syntax errors: well-formed up to the extracted key) and full_statement_refuted (finding X1: the only '
                 'departure); extensions_passed_through / no_extensions_invented (resolver-supplied extensions reach the response unchanged and nothing else '
                 'produces the key), only_lf_cr_end_lines (index_to_loc starts a line at LF, CR, CRLF only: the deterministic `linechars` class sends every '
                 'other Unicode line separator in front of an error position).',
         'note': 'Trusted: Lean kernel; extraction of key names/abort flags; stage internals (parse, validate, coerce) are observed through the real '
                 'functions; sharing of one exception object between registrations is covered by the oracle, not by a theorem. Repaired: H1 (non-string '
                 'messages), H2 (non-finite through the stand-in scalar). response_wellformed_pipeline (Props/C10_stages.lean) builds the stage record from '
                 "the models: parse stage = C01's parseTextE on the text (StagesOk.parse discharged), executed stage = the executor model (executed_stage_ok, "
                 'executed_errors_are_resolver_errors), StagesTyped is a theorem (stages_typed). Left as hypothesis LaterOk: the nodes of validation / '
                 "variable-coercion / root-collection errors start at tokens of the text (C06's model records the reporting rule, not the nodes; checked on "
                 'the real errors of every text request, corr:stage-hypothesis:*) and treeOkFields (user code: strict leaves and extensions).',
         'technique': 'Lean 4 proof over staged response model + extracted keys + direct response-format oracle'},
 'C11': {'text': 'Lean model of build_schema (Sdl.lean: _collect_definitions, ASTTypeBuilder.build_* / extend_* with both caches as by-name lookups, '
                 'additional_types as pre-loaded cache entries, default values through value_from_ast incl. the re-evaluation after extension, '
                 '_deprecation_reason, circular-reference guard, roots from the schema block / default names / extend schema, _build_type_map closure, '
                 'ignore_extensions) and of the PUBLIC extend_schema(schema, doc, strict) (SdlExtend.lean: _collect_extensions strict and lax, new definitions '
                 'built then extended, roots kept). Specification Spec/SdlSpec.lean: Declared doc (definitions, then every extension block merged into its '
                 'target in document order, defaults coerced over the merged definitions), SdlValid. Headline theorems, all full on the by-name model: '
                 'build_exact_spec / build_exact_valid (a document satisfying the rules of the specification - SdlValid + kind rules of eager references, '
                 "which are derived from C13's ValidSchema in build_exact_valid, + root rules - and the residue BaseDefaults / SelfDefaults / noThunkCycle "
                 'builds, and the schema is exactly Declared doc; residue_necessary: three witnesses show each residue premise cannot be dropped, findings S8 '
                 'and S1b), build_exact_final (same from SdlOK; noEagerCycleBase and rootsOk derived), build_perm_final / build_perm_spec (validity of ONE '
                 'document suffices, only the order of the extension blocks of each target is kept; ext_order_matters shows that is necessary), build_rejects '
                 '/ no_other_branch (every rejection, any flags, any supplied types, is SDLError / ExtensionError / SchemaError or the RecursionError of S1b; '
                 'build_internal_of_thunkCycle says when), build_ignoreExtensions (ignore_extensions=True is the build of the document without its extend '
                 'blocks, every document, every additional_types), extend_exact_strict / extend_exact_lax / extend_exact_lax_general '
                 '(extend_schema(build(base), B) for ANY document B the collection accepts returns exactly the content base ++ B declares; '
                 'lax_is_strict_on_kept: strict=False is strict=True on the kept part), extend_eq_build, extend_perm, extend_rejects, strict_refines, '
                 'collect_strict_exact, extendSchema_is_public; refutations: build_exact_refuted (the unrestricted statement, finding S8), '
                 'extend_roots_not_rederived (extend_schema never re-derives default roots: the side condition of extend_exact_* is necessary). SUPPLIED TYPES '
                 '(SdlAdditional.lean buildA = what the driver answers; buildA_nil: without supplied types it IS build): same-name supplied types (last wins), '
                 'transitive registry closure, a supplied type shadowing a specified one is refused once referenced, extension blocks of supplied enums / '
                 'input objects seen by default literals; DeclaredWith + build_exact_additional_noext (documents without extension blocks, ANY supplied types: '
                 'the schema is exactly the declared content - a definition whose name is supplied is the supplied type as it is), supplied_overrides, '
                 'registered_only_if_reached, extend_supplied_exact (extension blocks are applied to a supplied type exactly, every kind), buildA_rejects; '
                 'build_exact_additional_refuted / supplied_extension_dropped: with extension blocks the statement is FALSE today (finding C11/A1, fix '
                 'proposed). IN-PROGRESS DEFAULTS: touches_reach / thunkNeeds_reach / selfDefaults_of_noSelfReach / noThunkCycle_of_noSelfReach / '
                 'build_exact_acyclic_inputs / build_exact_defaults_off_cycles (the `hide` approximation and the S1b thunk cycles need an input object type '
                 'WITH A DEFAULTED FIELD that reaches itself: for documents whose defaults sit off the cycles of input objects - recursive input objects '
                 'allowed - the residue of build_exact_spec is BaseDefaults alone, a premise about the document only); mutual_default_not_completed / '
                 'h4A_not_selfDefaults / mutual_required_accepted (hunt4 C11-1: the model predicts the stale default and the accepted invalid document); '
                 "SdlInProgress.lean buildP = the extension pass with the builder's real _extended_cache / _in_progress bookkeeping (executable reference, no "
                 "theorem). SCHEMA DIRECTIVES: used_definitions_are_new / two_phase_directives_once (which parts' directives extend_schema applies: never "
                 'those of a definition the schema already has). Tied by the correspondence of canonical schema dumps (walk through public attributes) and '
                 'rejection classes on generated SDL (six kinds, wrappers, defaults of every input kind, descriptions, deprecations, directives, schema '
                 'blocks, extensions split arbitrarily over extend blocks, ALL definition orders of small documents, both flags, additional_types incl. enums '
                 'with internal values and types referenced from extension blocks only), 38 labelled single-defect documents with validation ENABLED, 36 named '
                 'extension documents x strict/lax for the public extend_schema, 39 named additional_types probes, 20 named in-progress probes + a targeted '
                 'stream of recursive input objects (and every batch document) against buildP, schema-directive applications counted per element for '
                 'build_schema and the two-phase build, and the direct oracle: dump of the built schema == the declared content known by construction '
                 '(reference coercion in Python), library error class on every labelled defect. AUDIT-3 REPAIRS. (F2) Spec/SdlDeclared.lean DeclaredSpec: the '
                 'declared content as RELATIONS per attribute (name, kind, description, fields with arguments / types / descriptions / deprecation - reason '
                 "from @deprecated(reason:), default text 'No longer supported' -, interfaces, union members, enum values, input fields, directive locations, "
                 "python_name, 'nothing else'; roots as DeclaresRoot = the last operation binding of the schema / extend schema blocks, else the object type "
                 'with the default name) which mentions no build* function; declared_meets_spec (Declared doc = some c -> DeclaredSpec doc c), spec_determines '
                 '(the relation has at most one solution: dropping a description, a location, a deprecation or reordering members falsifies it), '
                 'declaredSpec_iff, build_exact_final_spec / build_exact_spec_independent. Defaults stay behind the shared coercion CoercesTo (= valueFromAst; '
                 'C07 owns its theorems). (F3) Spec/SdlRules.lean: the rules behind SdlValid.declares as named clauses (Known, DeprecatedOK, ArgOK, FieldOK, '
                 'EnumValueOK, TypeDefOK, DirDefOK); buildTypeDef_ok_iff / buildDirective_ok_iff / declares_iff_rules / sdlValid_iff_rules: the member '
                 'builders succeed EXACTLY on them. (F4) REJECTION COMPLETENESS about build itself (Props/C11_reject_complete.lean): collect_ok_rules; '
                 'build_rejects_dup_type / _dup_directive / _second_schema / _specified_name (= SDLError exactly, any flags / supplied types); '
                 'build_rejects_invalid_type_def and its instances _unknown_field_type / _unknown_argument_type / _unknown_interface / _unknown_union_member / '
                 '_unknown_input_field_type / _dup_enum_value / _bad_default; build_rejects_invalid_directive_def; build_rejects_unknown_root; '
                 'build_rejects_ext_wrong_kind; build_rejects_ext_dup_field / _input_field / _enum_value / _union_member / _interface (member already in the '
                 'target); build_rejects_ext_repeated_field / _enum_value / _input_field / _union_member (same member in two extension blocks or twice in '
                 'one). For the member and root rules the class is SDLError or the RecursionError of S1b (Props/C11_reject_class.lean: '
                 'build_member_failure_class, build_rejects_invalid_type_def_class, _invalid_directive_def_class, _unknown_root_class); for the extension '
                 'rules the conclusion is Rejected = build fails with a library class or that RecursionError (another type may fail first in the extension '
                 'pass). corpus/C11/reject_rules.json: one document per theorem, checked against the real builder (direct oracle + correspondence) in every '
                 'run.',
         'note': 'Trusted: Lean kernel; generators; gen/sdl.py (ref_coerce, declared, doc_json). Lazy type thunks are by-name references (stack overflows from '
                 'eager recursion are seen by the correspondence and the S1b probe only). Schema.validate() is not part of the model (C13): documents rejected '
                 "by validation only are compared with validation disabled; the kind rules enter build_exact_valid through C13's ValidSchema. "
                 'additional_types: exactness proved for documents without extension blocks; with extension blocks per supplied type (extend_supplied_exact) - '
                 'the schema-level statement is refuted by finding C11/A1 until the proposed fix is committed; the public extend_schema(..., '
                 'additional_types=) is not modelled. The approximate model (one hidden type) differs from the code on about a fifth of the documents of the '
                 'targeted stream (recursive input objects + defaults + extensions; 188 of 1000 measured); buildP agrees on all of them but carries no '
                 'theorem: the theorems hold under SelfDefaults, which the one-hidden-type model can satisfy where the code keeps a stale value (probe '
                 'finding-H4-defaulted-backref): the statement that is safe to read against the code is build_exact_defaults_off_cycles. Only exercised by the '
                 'correspondence / oracle: the APPLICATION of schema_directives (SchemaDirective visitors), Schema objects assembled in Python passed to '
                 'extend_schema, nodes lists. no_other_branch_partial (vacuous) and build_exact_partial are kept for name stability and superseded by '
                 "no_other_branch / build_exact_final. Known findings S8, S1b, S10, C11/2, C11/3, C11/7, C11/A1 (new), C11/H4-1 (hunt4). After audit 3: 'a "
                 "root operation type must be an object type' is not a builder rule (Schema.validate, C13) and has no C11 theorem; the exact error class of "
                 "the extension rules and CoercesTo against C07's declarative coercion remain open.",
         'technique': "Lean 4 proof over the builder model (exactness from the specification's rules, permutation, rejection classes, public extend_schema "
                      'strict/lax) + schema-dump correspondence + declared-content and labelled-defect oracles'},
 'C12': {'text': "THREE Lean models of ASTSchemaPrinter, all compared with the real printer's exact text on every run. (a) SdlPrint.printSchema / printSchemaX "
                 '(String level, the module-level directive-name state threaded explicitly, all four options; include_introspection with the library constants '
                 're-read from the live objects): print_pure and print_pure_all_options (for every history of to_string calls, any schemas, any options, the '
                 'k-th output equals the output of that call alone in a fresh state; print_pure_refuted_today_full is the 2-call witness of H1 on the legacy '
                 'generator state). (b) the DOCUMENT the printer denotes: print_build_roundtrip / print_build_roundtrip_block (printBuildWF s => build '
                 '(schemaToDoc s) = ok s, the predicate names every excluded shape: H2, H5, H6, H8; print_build_roundtrip_needs_NoH2 refutes the statement '
                 'without the H2 clause), default_roundtrip / default_roundtrip_doc (every canonical default of every input kind, any nesting, reads back), '
                 'custom_structured_roundtrip, printBuildWF_printOrder. (c) SdlPrintT.printSchemaT and SdlPrintTA.printSchemaTA (total Text models; TA = with '
                 'print_directives at every site, include_custom_schema_directives True or a whitelist, lone-space quirk included): print_schema_text_parses '
                 'and print_schema_text_parses_custom (FULL: for every option set, every schema in any order and every assignment of directive nodes '
                 'satisfying the lexical predicate printTextWF(A), the printed text is accepted by the lexer and parser models of C01-C03 and parses to the '
                 'tree of the printed document, all six kinds, both argument layouts, the three description layouts, defaults, any space/tab indent), '
                 'printSchemaTA_conservative, custom_directives_erased, and the compositions text_roundtrip_final / text_roundtrip_custom_final / '
                 'text_roundtrip_custom_build (hypotheses on s and apps only: the text parses to a document that builds a schema equal to s up to the order of '
                 'definitions; applied directives INCLUDED: print_build_roundtrip_custom). build_ignores_custom / build_ignores_custom_full (FULL, every '
                 'document - valid or not, with type and schema extensions - every value of ignore_extensions and additional_types: build doc = build (doc.map '
                 'eraseCustom), the builder model reads directive applications only through @deprecated). THE PRINTER MODELS ARE ONE: '
                 'printSchemaTA_eq_printSchema (FULL: the String-level model, made total and list-based, and the Text-level model print the same code points '
                 'for every option set, schema and directive assignment whose PRINTED applications consist of lexemes - models_differ_on_empty_lexeme shows '
                 'the hypothesis is needed; no hypothesis without applied directives: printSchemaT_eq_printSchema), runHistory_texts (every output of every '
                 "call history is the Text model's text), print_schema_text_parses_string / text_roundtrip_string (the text theorems about the model the "
                 'history correspondence compares). LONG DESCRIPTION LINES (wrapped_lines, modelled exactly in both models): wrapped_description_lexes (FULL: '
                 'a description inside descWrapOK - descTextOK without its width clause, shape conditions asked of the wrapped lines - is printed, at every '
                 'depth and space/tab indent, as text the lexer model reads as exactly ONE BlockString token whose value is the wrapped lines joined by line '
                 'feeds), descWrapOK_extends, wrapped_short_value, and h12_value_differs (finding H12 on the model: the value read back is not the '
                 'description); the statement is also evaluated against the real code (driver op wrapDesc: the description read back from to_string equals the '
                 "model's wrapped value, named probes + a long-description stream); rewrapped_description_fixpoint (wrapped lines that FIT are printed the "
                 'same way again: the text is a fixpoint from the first round) with h12_not_a_fixpoint (refuted for an unbreakable word longer than the '
                 'width), and at SCHEMA level printSchemaT_rewrap_invariant / print_schema_text_parses_rewrapped / text_roundtrip_rewrapped: the text theorems '
                 'WITHOUT the width clause - the printed text of a schema with over-long description lines parses to, and builds, the RE-WRAPPED schema '
                 '(rewrapSchema), whose text is the same. include_introspection at TEXT level: SdlPrintTA.printSchemaXTA, tied to the String model for all '
                 'four options by printSchemaXTA_eq_printSchemaX (+ _default: no hypothesis when no directive application is printed) and runHistoryX_texts. '
                 'h5_* / h12_width_boundary state the other description findings. Every history also runs in ONE forked child and every call alone in a fresh '
                 'child; direct oracles dump(build(to_string(s))) == dump(s), fixpoint, parser accepts, root names differing only by case, non-root types '
                 'named Query/Mutation/Subscription, exotic strings, look-alike numeric ID defaults, description edge cases. AFTER AUDIT 3 (builder sdl3): THE '
                 "THIRD CLAUSE ('serialising the rebuilt schema reproduces the same text') is a theorem: print_fixpoint_text (printTextWF and printBuildWF => "
                 "the text parses, the parsed document builds s', printSchemaT o s' = printSchemaT o s, and s' is again inside both predicates), "
                 'print_fixpoint_text_custom (applied directives), print_fixpoint_string (the String model of the history correspondence), reprint_of_build. '
                 "EVERY PRE-IMAGE (F9): SdlText.astToDoc rho is the conversion parsed tree -> document as a FUNCTION of the tree (rho stands for Python's "
                 'repr(float(.)), a parameter); docToAst_left_inverse (astToDoc rho (docToAst doc) = reDoc rho doc: docToAst drops nothing but the f '
                 "components and the member lists not of a definition's kind), docToAst_injective_on_canon, text_roundtrip_every_preimage / "
                 '_custom_every_preimage and print_fixpoint_every_preimage (no existential over documents: the document converted from the parsed tree - and '
                 'every canonical document with that tree - builds the schema), hypothesis CanonDoc rho (printedDoc s) reduced to the printed default literals '
                 "by canonDoc_schemaToDoc / litsCanon_of_wf and EVALUATED on every run with Python's real repr(float(v)) (driver op printT: canon, preimage). "
                 "VALIDITY (F10): valid_implies_printWF - C13's ValidSchema (on the view that includes the specified types: Covers s full) and the decidable "
                 'residual printResidual o s (every conjunct a named exclusion: NoH5/NoH12 descriptions, NoH6, NoH2/NoH8/printable defaults, SDL-style unique '
                 'enum values, representation invariants, no reference cycle, options) imply printTextWF o s and printBuildWF s; validity discharges every '
                 'name-lexeme clause, non-emptiness, reference resolution and the roots; printResidual_necessary (the residual FOLLOWS from the two '
                 'predicates: on valid schemas it is exactly the domain of the theorems); valid_roundtrip (the property for valid schemas, exclusions named); '
                 "h2_valid_but_excluded (a schema that passes C13's validation and fails only the NoH2 clause: the residual is not redundant). "
                 'include_descriptions=False (F8): printSchemaT_descriptions_off (with descriptions off the printer prints the description-free schema '
                 'stripSchema s, no hypothesis), print_schema_text_parses_nodesc, print_fixpoint_text_nodesc (round trip and fixpoint for the other value of '
                 'the option; the description clauses NoH5/NoH12 are vacuous there); evaluated by the driver on every call with descriptions off (wfStrip, '
                 'parsesStrip).',
         'note': 'Trusted: Lean kernel; generators; the library constants of include_introspection are re-read, not modelled. The text-level theorems do not '
                 'cover include_introspection=True (its library descriptions are re-wrapped: finding H12, and its output is not rebuildable: C12/1); for '
                 'include_introspection=True the whole-schema PARSE theorem is not composed (the specified directives are printed first and unsorted, outside '
                 "the print-order core lemma); its text is the Text model's (printSchemaXTA_eq_printSchemaX) and each of its re-wrapped descriptions lexes to "
                 'one block string (wrapped_description_lexes). Known findings H2, H5, H6, H8, H12, C12/1, C12/5, C12/6, C12/7 (see known_findings.json). '
                 "Repaired: H1, H3, H9, H11. (sdl3) Python's repr(float(.)) is NOT modelled: the every-pre-image theorems quantify over rho and assume it "
                 'agrees with the printer on the printed numerals (true of every schema of the streams; asked also at ID / custom-scalar positions where build '
                 'does not read f). valid_implies_printWF depends on the generated name tables of C13 (VALID_NAME_RE).',
         'technique': 'Lean 4 proof (printer purity over call histories and all options, document- and text-level round trip with applied directives, builder '
                      'blind to custom applications, equality of the two printer models, re-wrapped descriptions lex to one block string) + exact-text '
                      'correspondence of the printer models + fresh-process reference + round-trip oracle'},
 'C13': {'text': 'Lean model of SchemaValidator method by method (SchemaValid.lean; is_subtype TRANSLATED from source each run; name classes, rule format '
                 'strings, the flags of _replace_types_and_directives and one flag per repaired defect RE-EXTRACTED each run: model_rules_extracted, '
                 'config_fixed; the individual flag checks are private `decide` lemmas, not counted as obligations) against the declarative '
                 'Spec/SchemaValidSpec.lean. Headline theorems, all full: validate_iff / accepts_iff (no error <=> ValidSchema), violation_iff / '
                 'reports_every_violation / valid_iff_no_violation (an error is reported <=> that rule INSTANCE is violated: the validator never stops at the '
                 'first), reports_all, subtype_iff (+ subtype_fuel) through lists and non-null, name_iff, perm_types (verdict independent of the order of '
                 'schema.types), the uniqueness clauses of the specification that the validator does not re-check on live objects NAMED '
                 '(ConstructionInvariants, validate_iff_spec, enum_uniqueness_not_implemented), the resolver clause given its meaning by an explicit model of '
                 'Python call binding (Props/C13_call.lean: compatible_calls_bind, binds_all_compatible, compatible_iff_binds, resolver_rule_iff_binds: '
                 'accepted <=> every call resolver(root, ctx, info, **arguments) the executor can make binds), and the _is_valid cache as a state machine over '
                 'validate / register_resolver / register_default_resolver / register_subscription / plain resolver assignment / field.arguments / multi-entry '
                 'replace requests incl. refusals / structural plain assignments: cache_sound, validate_ok_means_valid, step_inv, cache_sound_all '
                 '(cached-valid => the CURRENT schema is valid, over all honest histories), structural_setter_seen_sound, and - WITH '
                 'proposed_fixes/C13-S12.patch (fingerprint = everything the validator reads; flag cfgCacheTracksStructure re-extracted) - '
                 'cache_sound_all_mutators / cache_sound_every_history: EVERY public mutator, structural plain assignments included, with honest replace '
                 'requests as the only condition. the default-value clause given an independent meaning (Props/C13_default.lean: declarative Conforms, '
                 'default_error_sound at every fuel, defaultOK_iff_conforms within the 64 levels the model looks at). perm_deep: the verdict does not depend '
                 'on the order of ANY list of the description at any level (types, directives, fields, arguments, enum values, input fields, union members, '
                 'interfaces). Refuted with machine-checked witnesses: the legacy cache variants (legacy_overwrite / nonatomic / directive_unsound, '
                 'legacy_type_name_masks, legacy_duplicate_masks, and cache_unsound_unseen_structural_setter / cache_sound_all_mutators_fails_today for the '
                 'tree before fix C13-S12). Tied by correspondence (verdict + multiset of reporting rule instances, both values of enable_resolver_validation) '
                 'on the DUMP OF THE LIVE schema over streams A-M: valid schemas, labelled violations at every position, covariance through wrappers, all type '
                 'orders, register/assign/replace/validate histories, one resolver shared by several fields, derived schemas (clone / transform / extend), '
                 'setter edits, really-called resolver signatures, address reuse of dropped resolvers; Lean-guarded shrinking. ADDED IN THE BUG-HUNT ROUNDS: '
                 'cache_tracks_assignments (plain assignment of resolvers at the four places, Op.assignResolver in the cache machine), '
                 'signature_of_the_callable (the callable the executor calls is judged: follow_wrapped=False re-extracted), wrapped / partial / bound / '
                 'callable-instance resolver forms.',
         'note': 'Trusted: Lean kernel; py2lean translator; extraction of name classes, rule format strings (used only to attribute errors), replace flags and '
                 'fix flags; inspect.signature (signatures enter the model as data; bindOk is a model of CPython call binding checked by REALLY calling the '
                 'generated callables); build_schema and fix_type_references are exercised, not modelled. Only exercised: what a deletion heals (taken from '
                 'the live object). Until proposed_fixes/C13-S12.patch is committed to /repo the obligation cache_tracks_structure fails and structural plain '
                 'assignments keep a stale verdict (counted: outside_statement_stale_after_structural_setter). Residual after the fix: objects not reachable '
                 'from schema.types, the derived caches implementations / _possible_types, in-place mutation of a default value. Repaired: H1-H9, HH1, HH2.',
         'technique': 'Lean 4 proof over hand model (validator = declarative rules instance by instance; cache invariant over all histories; call-binding '
                      'model) + source-translated is_subtype + labelled-violation / history correspondence'},
 'C14': {'text': 'Object-heap model (lean/PyGqlModel/Heap.lean, HeapExt.lean, Registry.lean: objects with identities, attribute writes, copy.copy as a new '
                 'identity; Schema.clone, _replace_types_and_directives incl. busted_cache, _HealSchemaVisitor / fix_type_references, SchemaVisitor.on_*, '
                 'VisibilitySchemaTransform, CamelCaseSchemaTransform, a drop/wrap schema-directive visitor, transform_schema, extend_schema with the '
                 'attribute copying of ASTTypeBuilder._extend_*, the resolver registries as heap objects) whose code-variant flags (Cfg) are RE-EXTRACTED from '
                 'schema.py / ast_type_builder.py / schema_from_ast.py on every run. Headline theorems, all FULL for the variant in /repo (each with a '
                 'machine-checked refutation for the variant before the repair): CLOSED - heal_closed, clone_closed, transform_closed (+ _total), '
                 'extend_closed / extend_closed_wf (every document that only uses defined names: ExtOK; refuted for the un-extended input-field variant, '
                 'C11-S1); FRAME - clone_frames_source (clone and every clone-based transform write no object of a closed source), transform_owns_result + '
                 'inplace_on_result_frames_source (in-place visitors on a result never reach back), extend_frames_source, clone_frames_source_registries / '
                 'clone_keeps_source_digest; SEQUENCES - transform_sequence_frames_source, transform_sequence_untouched_preserved, run_ops_untouched_preserved '
                 '(transforms and extensions mixed), transform_chain_untouched_preserved (each transform applied to the previous result, TRel.comp), '
                 'history_closed_framed (ANY tree of clone / transform / extend derivations on one heap keeps every schema closed, well-formed and unwritten), '
                 'with totality (runAll_total, runOps_total, chain_total); PRESERVED - transform_preserves_untouched (type level, every visitor), '
                 "transform_preserves_untouched_members (fields, arguments, input fields: in order, copies of a sub-list of the source's with every untouched "
                 'attribute), untouched_preserved_extend (+ _protected, _directives, _schema_level), extend_keeps_leaf_class, clone_intact / transform_intact, '
                 'visibility_hides_type(_transform); IN-PLACE - history_inplace_closed_framed / inplace_step_separate (per-schema ownership: an in-place '
                 "visitor on ANY derived schema, also one created before others, writes only that schema's objects: every other schema stays closed, "
                 'well-formed, unwritten), camel_case_exact (per schema, exact: the by-name view of every type with the member names converted, none dropped), '
                 "transform_preserves_members_any_visitor (no NoWrap: under drop/wrap directive visitors only a field's resolver may change, to a wrapper's "
                 "id), extendO_closed_wf / extendO_frames_source (extend_schema with the document's implements clauses and the code's dict order, "
                 'extendOrder); HIDDEN - visibility_hides_members / visibility_hides_directives / directive_drops_fields (hidden fields, input fields, '
                 'directives and fields dropped by a schema directive are in no list of the result, healing included), visibility_members_exact (without '
                 "hidden types every member list is the source's filtered by the predicate: the lower bound of the Sub2 theorems; VisibleMembersKept is the "
                 'named open lower bound when types are hidden too); config_fixed (currentCfg = Cfg.fixed := rfl: no current_* theorem takes a flag '
                 "hypothesis); REFINEMENT - clone_is_copy_then_exact_heal, clone_refines (the by-name dump of every type of a clone equals the source's for "
                 'every interpretation of resolver ids / defaults), clone_refines_directives, clone_types_perm / clone_types_order (dict order of the clone = '
                 "order of Schema.__init__'s type map; 'same order as the source' refuted, not part of the property), clone_registries_total. The ten "
                 '`_partial` theorems are subsumed by these and kept for name stability. Tied by correspondence of the live object graph (identities '
                 'canonicalised by traversal order, registries and dict orders included) over random clone / transform / extend / in-place / register '
                 'sequences applied to the source or to earlier results, by-name dump(clone(s)) == dump(s), and direct oracles on the real code: closedness by '
                 'identity, frame condition on the source, preserved attributes, hidden elements unreachable through real introspection and queries, resolvers '
                 'still executed under the new names, source still usable; named deterministic probes (python names through camel-case, input fields of a '
                 'clone, in-place visitor on an earlier result while later schemas exist, visibility allow-lists, stale caches); oracle cases of the bug-hunt '
                 'rounds (class tags of leaf types through extension, type resolvers returning objects of the source schema, schema directives applied by '
                 'extensions only to what the extension wrote, inline directive definitions registered, defaults re-evaluated after extensions).',
         'note': 'Trusted: Lean kernel; Cfg flag extraction (ast / regex); generators; snakecase_to_camelcase enters as a table computed by the real function '
                 '(theorems hold for every renaming). Only exercised by the oracle, not modelled: validate(), Schema.implementations / _possible_types '
                 "(derived indexes), merge_resolvers' assignment onto fields, default values (opaque strings in the model), enum value objects, interfaces "
                 'added to an EXISTING type by `extend type X implements I`; OPEN (named in Lean as `def VisibleMembersKept`, not proved): when a visibility '
                 'transform hides TYPES as well, that every field not mentioning a hidden type survives the healing rounds (the upper bounds Sub2 / '
                 "visibility_hides_* and the type-level lower bound visibility_keeps_visible_types are proved; the harness's oracle checks the member-level "
                 'lower bound on the real code). history_inplace_closed_framed steps with extendO (= extend + interfaces of new types + dict order); the '
                 'histories of the first wave (history_closed_framed, run_ops_*) step with extend. Known findings T13, T14, T15-residue, T19 (see '
                 'known_findings.json). Repaired on the way: S2, T1-T12, T15-T18, U1.',
         'technique': 'Lean 4 proof over an object-heap model (closedness, frame, ownership, preservation, refinement; induction over derivation histories) + '
                      'live object-graph correspondence and identity oracles'},
 'C15': {'text': 'introspect_lossless proved in full (decoder(introspect s) = norm s for every schema with <= 7 wrappers; bound shown tight), '
                 'deprecated_hidden, disabled_hides_all, disabled_keeps_ordinary, read_print (the literal reader inverts print_ast on every literal), '
                 'default_parses_partial about _format_default_value TRANSLATED from source each run (every default kind round-trips except plain strings with '
                 'control characters other than TAB/LF/CR) + default_parses_refuted (raw FORM FEED, pinned by test_introspection_on_input_object). Tied by '
                 'correspondence of the full introspection JSON and the direct decode-and-compare / re-parse-default / empty-reason oracle. ADDED IN THE '
                 'BUG-HUNT ROUNDS: strict_string_stays_string (litOfStrict: what introspection reports for custom-scalar strings), '
                 'meta_below_non_query_not_a_field, typename_everywhere, oracle for defaults without a literal form (a field error at that defaultValue, '
                 'everything else reported). AS BUILT NOW: model files Introspect.lean / IntrospectPrims.lean (+ Generated/Introspection.lean), specification '
                 'Spec/Introspect.lean (decoder schemaOfIntrospection, observable normal form norm). Exactness theorems next to introspect_lossless: '
                 'interface_possible_types_exact / interfaces_possible_types_dual / object_interfaces_exact / possible_types_null_elsewhere (possibleTypes of '
                 'an interface = exactly the objects that declare it, and null for every other kind), deprecation_reason_exact, directive_keys_june2018, '
                 'default_string_reads_back_iff (a plain String / ID default reads back IFF it has no control character other than TAB / LF / CR: the exact '
                 "boundary of finding I1's residue). Deterministic class eq-colliding: defaults and enum internal values 1 / True / 1.0 / 0 / False / 0.0 on "
                 'one JSON-like scalar and one enum, two schemas sharing the type objects, introspected in one process with a type-strict round-trip oracle. '
                 'AUDIT REPAIR (co3, audits/2.md finding 3): default_parses_partial reads the text back with the PRIVATE reader readLit, which is laxer than '
                 'the grammar (readLit_laxer_than_grammar: `1.e+-`, `{a:1.}` are read by it and refused by the lexer model and by the real parse_value). '
                 "Props/C15_grammar.lean restates the clause against the VERIFIED lexer + parser model (Parse.parseValueText = C01's lexAll then C02's "
                 "parseValue) and at the VALUE level through C07's valueFromAst on Exec.regOfSchema: DefaultParsesGrammarStatement / "
                 'FormatDefaultParsesGrammarStatement (full, OPEN), default_parses_grammar_instances_partial (27 literals: every kind, escapes, nesting), '
                 'format_default_parses_grammar_instances_partial, default_value_roundtrip_instances_partial (enum member with internal value 1 reported as B '
                 'and read back as 1, [B, A], input object, string with LF, ID, null), DefaultValueRoundTripStatement REFUTED by '
                 "default_value_roundtrip_refuted_custom_scalar (a NUMBER default at the stand-in scalar is reported as `5` and reads back as the text '5': "
                 "known finding I22, C07's A10 seen from introspection; reproduced by the named probe grammar-witnesses, which also checks that the reported "
                 'texts of the Lean instances are the real ones). The general induction over printLit against the fuelled lexer is NOT proved.',
         'note': 'Trusted: Lean kernel; translator; generators; `_resolve_type_kind` and the meta-field table of field_definition are extracted statically or, '
                 'when the shape is not recognised, by running the real code on their finite domains (route recorded in the evidence). asyncio/thread-pool '
                 'runs only exercised by the Python oracle. Known finding I1 (residual: control characters in plain string defaults). Repaired: I1 (rest), I2, '
                 'I3. Known finding I10 (@deprecated(reason: null) built as not deprecated). Repaired: I7, I8, I9, I11, I12. Known findings I5 '
                 "(VARIABLE_DEFINITION is not a member of __DirectiveLocation), I10, T14 (C14's finding seen through introspection: oracle derived-defaults). "
                 'introspect_lossless_end_to_end: Spec.decodeAll reads every entry (possibleTypes of interfaces included) and equals (norm s, implementers s) '
                 'within the TypeRef depth of the standard query; checked on the REAL answer on every run.',
         'technique': 'Lean 4 proof (lossless decoder, default round trip) + source-translated formatter + introspection JSON correspondence'},
 'C16': {'text': "Trace model of process_graphql_query / execute / both executors' resolve_field / apply_middlewares / MultiInstrumentation: stages_nested "
                 '(every outcome incl. subscription operations, executor, schedule), field_hooks_once, field_hooks_ordered (every schedule), '
                 'field_paths_unique, field_hooks_exactly_once_per_path, middleware_once_in_order, multi_order, multi_member_sees_all, all full. Tied by '
                 'event-trace correspondence on all request outcomes x four configurations x all 36 schedules and the direct bracket/once oracle. ADDED IN THE '
                 'BUG-HUNT ROUNDS: slow / abort block (request-aborting sibling x slow sibling x runtime x executor), every field hook inside the execution '
                 'stage. ADDED IN THE RUNTIME ROUND: named probe default-resolved-deferred-list (lists of 2-3 objects whose DEFAULT-resolved field holds a '
                 'Future / awaitable / async method, no middleware, thread pool and asyncio, every completion order, hook paths copied at hook time; oracle: '
                 'one start and one end per path); the manual-pool runs are under the deterministic deadlock detector. ADDED IN THE SECOND RUNTIME ROUND: '
                 'named probe abort-nested-coroutines (corr/C16_cancel.py; hunt round 2, C16-1): graphql() on asyncio with coroutine resolvers only, a root '
                 'field raising ExecutionError next to an object / nested object / list field with coroutine children, every offset -1..+4 of loop ticks '
                 'between the two, both document orders, the aborting field at the root or one level below, leaves returning at once or one tick later (148 '
                 'schedules quick / 230 thorough); oracle: every started field hook gets exactly one end hook, inside the execution stage. Stages of the check '
                 'run under the wall-clock backstop C08_world.run_stages (c16:never-completes:stage:<name>). ADDED IN THE SECOND RUNTIME ROUND: the MECHANISM '
                 "of N7 as a small event-queue model (AsyncCancel.lean: FIFO ready queue, first steps of the children's tasks, Task.cancel() on unstarted / "
                 'suspended tasks, gather forwarding the cancellation vs. a shielded gather whose waiter is woken behind the queued first steps): '
                 'Props/C16_cancel.lean (decide, n <= 4) and Props/C16_cancel_n.lean - forwarded_cancel_kills_unstarted_children (today: for EVERY k entered '
                 'and r unstarted children the k get their end hook, the r never do; forwarded_cancel_lost_count = r) against '
                 'shielded_gather_ends_every_started_field (with the patch: every child, every n, every arrival point; lost = 0), '
                 'cancel_before_first_step_loses_end_hook (the reproduced schedule), every_started_field_ends_refuted. ADDED IN THE SECOND RUNTIME ROUND: '
                 'AUDIT ROUND 2: deferred_field_middlewares_exit_at_submission (the exact deferred form: resolve_field emits field+, every middleware entry, '
                 'every middleware exit and nothing else; call / ret / field- come with the task), field_events_inside_execution (for every request that '
                 'reaches the executor the trace is stage events ++ [execution+] ++ executor run ++ [execution-] ++ [query-], the executor run has no stage '
                 'event: every field / middleware / resolver event lies inside the execution stage, every executor, runtime and schedule of the model); named '
                 'probe middleware-deferred.',
         'note': 'Trusted: Lean kernel; generators. Thread-pool runs use atomic completions only; ApolloTracer payload only checked by the oracle. Known '
                 'findings N3 (stages left open when processing RAISES), N4 (thread pool: end hook of a sibling in flight fires after on_execution_end; '
                 'asyncio: never-awaited sibling of a synchronous abort). Repaired: H1, H2, H3. The per-(type, nodes) sharing of one ResolveInfo between list '
                 'items (seeded C16-11) is covered by that probe only, not by the Lean trace model. Known finding N7 '
                 '(c16:abort-nested-coroutines:asyncio:child:end-missing): children cancelled BEFORE the first step of their task never run the body of '
                 'map_value._await_value, hence no on_field_end; proposed_fixes/C16-N7.patch (gather_values awaits a shielded gather and cancels its members '
                 'itself, once they have been entered) passes the unedited suite and the C08/C09/C16/C17 checks; the entry goes when it is committed. asyncio '
                 'task scheduling and cancellation are NOT in the Lean trace model (it is the callback algebra of the thread pool): this class is oracle-only. '
                 'AsyncCancel.lean abstracts asyncio (Task.cancel / gather / shield semantics are TRUSTED as described in its header, not extracted); it is '
                 'tied to the code only through the verdicts of the probe abort-nested-coroutines with and without the patch, not by a trace correspondence. '
                 'Known finding N8 (c16:middleware-exits-before-deferred-resolver:threadpool): apply_middlewares wraps runtime.wrap_callable(resolver), so on '
                 'a runtime that off-loads resolvers every middleware has EXITED before the resolver runs (real trace mw>1 mw>0 mw<0 mw<1 ... call ret); '
                 'entries, counts and order are proved for every schedule (field_hooks_once / field_hooks_ordered, whose `order` omits the exits), the NESTING '
                 "around the resolver's execution only for synchronous resolvers (field_hooks_contiguous_sequential): documented latitude, not fixed. "
                 'stages_nested is over stage events of the post-N1 pipeline; OutKind has no unexpected-exception / request-abort outcome (real code: findings '
                 'N3, N4, N7).',
         'technique': 'Lean 4 proof over hook-trace model + controlled-schedule trace correspondence'},
 'C17': {'text': 'Model of subscribe / create_source_event_stream (root collection through fragments: collected_root_fields, root_rule_spelling_independent) / '
                 "execute_subscription_event with the shared executor's error list and clear_errors, AsyncMap: one_result_per_event, "
                 'kth_result_is_exec_of_kth_event, errors_isolated (+ decide refutation without clear_errors), refusals (6 clauses, no event consumed), '
                 'accepted_stream, all full. Tied by correspondence and a direct oracle on the real subscribe() on a private asyncio loop (event lists, '
                 'delays, errors on arbitrary events, every refusal incl. fragment-expanded multi-field roots with source-consumption detection, accepted '
                 'duplicate/fragment spellings of one field). ADDED IN THE BUG-HUNT ROUNDS: refusals_uncomputable (unevaluable root directive / uncoercible '
                 'argument: ExecutionError before the resolver), refused_before_variables (operation selection, kind, runtime, variables: in that order), '
                 'request-aborting events as results, meta root fields, sources with a setting-up __aiter__, resolvers mutating list arguments across events. '
                 'ADDED IN THE RUNTIME ROUND: fault sequences (SubscribeFaults.lean): the SOURCE raising from __anext__ mid-stream, events whose processing '
                 'raises an unexpected exception (their partial errors stay in the shared executor), a consumer that reads on: faults_do_not_leak (what the '
                 'consumer sees equals the state-free specification: every surviving event executed on a fresh executor, source errors consume no event '
                 'index), one_pull_per_item, async_for_stops_at_first_fault (results of the prefix, |prefix|+1 source pulls, nothing behind the fault '
                 'consumed), crash_leaks_without_clear_errors (decide witness), drain_eq_pullsOf. Tied by driver op `faults` and a deterministic stage over '
                 'all 84 sequences of length <= 3 (correspondence + direct oracle with position-tagged error messages). ADDED IN THE SECOND RUNTIME ROUND: the '
                 'stages of the check (fault-sequences, exhaustive, random) run under the wall-clock backstop C08_world.run_stages: a tree that blocks the '
                 "loop's thread inside one iteration (where the progress-based bounds never get control) yields c17:never-completes:stage:<name> after the cap "
                 'and the check finishes (mutation trial: AsyncMap.__anext__ waiting on a threading.Event - reported in 102 s).',
         'note': 'Trusted: Lean kernel; generators. Overlapping __anext__ calls on one executor are outside the sequential protocol modelled. Repaired: H1-H8. '
                 'AsyncMap defines no aclose / athrow (`__slots__ = (source_stream, map_value)`): closing is exercised only where a stream object offers it '
                 '(none today); crashing events of the random streams remain outside the model comparison (direct oracle only). AUDIT ROUND 2 (stated in the '
                 'doc comments of the theorems): kth_result_is_exec_of_kth_event / faults_do_not_leak / accepted_stream compare the stream with the SAME model '
                 "function run on a fresh executor (`clear_forgets` is rfl; an Event is already the outcome tree over Subscribe.lean's own synchronous "
                 'mini-executor): their content is exactly `the error list is reset before each event` (necessary: errors_not_isolated_without_clear_errors); '
                 'that the k-th result is an execution on the C04/C08 executor models is checked by the direct oracle on the real code only. refusals / '
                 'refused_before_variables / refusals_uncomputable are case splits over the if-chain: they pin the exception class and the order of the '
                 'checks; `no event consumed, resolver not called` are constants of the refused branches (no step relation) and are checked on the real code '
                 '(instrumented source) only.',
         'technique': 'Lean 4 proof over subscription stream model + real asyncio stream oracle'},
 'C18': {'text': 'Generic table-driven model of lang/visitor.py over rose trees (Visit.lean: _visit_method wrapper with keep / replace / delete / skip / '
                 'raise, map_and_filter, classdispatch and the isinstance cascade, DispatchingVisitor, ChainedVisitor before and after the SkipNode repair, '
                 'chains of chains). The traversal TABLE - every statement of every _visit_* body (attribute, one/many, guard, assignment, call target), the '
                 'visit / dispatcher / enter_* / leave_* registries, __slots__ of every node class, the flags crossKind and chainPersonalSkip observed on the '
                 'real code, and four witness documents parsed by the real parser - is RE-EXTRACTED on every run (Generated/VisitTable.lean). Proved for every '
                 'table and visitor: identity_noop, balanced (well-bracketed trace, parents around children), once, coverage_partial (calls of an identity '
                 'visit = pre/post-order over the IMPLEMENTED child relation) with its converse identity_total / identity_completes_iff, model_total / '
                 'visit_never_out_of_fuel, covered_children_visited; delete_local / replace_local / skip_local and, at every position reached through the '
                 'implemented relation, delete_at / replace_at / skip_at (= Spec.editAt); chained_order, chained_order_personal / chained_skip_personal '
                 '(repaired SkipNode semantics), nested_chain_flat_is_chain. Closed by decide +kernel on the generated table: table_closed, visit_total, '
                 'dispatching_total, table_steps_distinct, dispatchers_agree_with_visit, missed_children_today (coverage read as: all children EXCEPT 15 '
                 'listed (kind, attribute) pairs, W1-W4) + uncovered_partition, once_today, edits_today. Coverage WITHOUT the premise that a child is '
                 'dispatched to the method of its own kind: Reached / reached_walk / reached_visited (every table: whatever method a call target resolves to), '
                 'Covered (purely structural) with covered_reached on well-kinded trees, table_kinded_today (every call target, dispatcher or directly called '
                 "method, runs on every child class that ast.py / the parser admit there exactly the statements of that class's own method; child-kind table "
                 're-extracted from the annotations of ast.py + parser probes) and the closed form all_covered_children_visited. Sibling order (W5) as '
                 'theorems: list_members_in_order, siblings_in_statement_order (every table), sibling_order_inversions_today (statement order contradicts slot '
                 '= source order for exactly four (kind, first, second) triples: default_value before type, type before arguments, operation types before '
                 'directives x2) and siblings_in_source_order_today (all other sibling pairs of all kinds are visited in source order); visited_reached / '
                 'reached_covered / visited_iff_covered_today (EXACTLY the covered nodes are entered and left). The success premise `visit = .ok` of all these '
                 'theorems is discharged by a decidable shape check read off the generated table (VisitShape.lean): WellShaped, wellShaped_visit_ok (every '
                 'observer, every state, fuel t.depth), witnesses_well_shaped, evaluated by the driver on every document of every run. balanced_strict (an '
                 'unmatched enter is tied to a deletion / skip of that node in the state reached; a kept or replaced node IS left). Chain statements for the '
                 'loop the code has (chained vs true, flag chainPersonalSkip): chained_order_current (enter in order AND leave in reverse), '
                 'chained_observer_current, chain_discards_delete/replace_current, chain_not_faithful_current. Full coverage is REFUTED (full_coverage_false, '
                 'gaps_executable, gaps_type_system, order_violated: W1-W5) and ChainedVisitor discards member deletions / replacements (chain_not_faithful, '
                 'W6). Tied by trace (phase, node identity, kind, handler) and result-tree correspondence with scripted real visitors at every node position, '
                 'Spec.editAt against the real code, and a direct exactly-once / nesting / locality / chain-order oracle.',
         'note': 'Trusted: Lean kernel; the table extractor C18_table.py (shape-checked static extraction from the Python ast of visitor.py; a dynamic '
                 'fallback C18_dynamic.py observes the table on one maximal instance per node class when a shape is not recognised - evidence key '
                 '`extraction`); generators. The hand-written wrapper / map_and_filter / chain models are tied by the correspondence only. Hypothesis of the '
                 'closed coverage / order theorems: the document is well-kinded w.r.t. the extracted child-kind table (checked on every document of every run: '
                 '`wellkinded:*`), and `__slots__` order = source order (checked against `loc` on the probe documents at extraction). PARTIAL: no Lean '
                 'encoding Ast.Document -> Visit.Node with encode_wellShaped; parser-produced documents are tied to WellShaped by the witnesses and by the '
                 'driver evaluating it on every document (`corr:shape:ill-shaped`). The theorems named chained_order / chained_observer / chained_skip / '
                 'chain_discards_* / chain_not_faithful concern the loop BEFORE fix W8 (said in their doc comments). Only exercised: in-place aliasing (child '
                 'lists never edited in place, structurally equal siblings), DispatchingVisitor class histories, `visitors` reassigned after construction, '
                 'ChainedVisitor subclasses as members, CPython recursion limit (known finding W9: RecursionError with enters without leaves on documents '
                 'nested deeper than the interpreter stack). Known findings W1-W6 (pinned by the literal event lists of test_visitor.py or not a small '
                 'repair). Repaired: W2b, W3b, W5b, W7, W8, W10.',
         'technique': 'Lean 4 proof over source-extracted traversal table (generic theorems + decide on the generated table) + visitor trace / tree '
                      'correspondence'},
 'C19': {'text': 'Model of utilities/collect_fields.py (collect_fields_untyped with the shared visited-fragments set, selected_fields / _selected_paths with '
                 'its re-extracted skip hook) and utilities/max_depth.py (MaxDepthValidationRule.__call__: operation_name filter, per-operation variable '
                 'coercion with fallback to the raw request variables, conditions that cannot be evaluated keep the selection, _nesting_levels with the '
                 'nesting budget and the `unbounded` verdict on fragment cycles) in Depth.lean, behind variant flags re-extracted from the source on every run '
                 '(Generated/DepthVariant: tolerantSkip, budgeted, sharedSeen, lenientSelectedFields), against an independent depth specification '
                 '(DepthSpec.depth: longest chain of nested selection sets with fragments inlined and @skip/@include evaluated). Headline, for the rule the '
                 'tree runs today (ruleB): no_raise_all and pipelineB_never_raises (no hypothesis at all), flags_iff_final (unique fragment names + '
                 'declarative acyclicity only: flagged <=> selected by the filter and depthRK > limit, reported depth exact, no fuel, no bound), '
                 'flags_iff_final_available (per-operation availability => the plain specified depth), unbounded_only_if_invalid, cyclic_repaired_reports; the '
                 'earlier layers flags_iff / flags_iff_v / flags_iff_raw / flags_uncoercible / flags_iff_repaired, pipeline_rejects_iff(_raw/_repaired) '
                 '(request rejected with a depth error iff a selected operation is deeper than n, all n >= 0, all filters), no_raise(_v/_repaired), '
                 'name_filter, acyclic_iff_Acyclic, depth_fuel_irrelevant, measured_eq_depth. Wrapping never lowers (never changes) the measured depth: '
                 'wrap_inline_ge / wrap_spread_ge (operation level), wrap_inline_in_fragment_ge / wrap_spread_in_fragment_ge (inside fragment bodies), and for '
                 'the live measure depthK with ANY request variables wrap_inline_final, wrap_spread_final, wrap_inline_in_fragment_final, '
                 'wrap_spread_in_fragment_final; the validity of the wrapped document is DERIVED (wrap_inline_in_fragment_valid / '
                 'wrap_spread_in_fragment_valid from unique names + freshness of the new fragment name, explicit rank), giving wrap_inline_in_fragment / '
                 'wrap_spread_in_fragment and the _final_derived forms without any hypothesis on the wrapped document. The loop of _nesting_levels is modelled '
                 "AS WRITTEN (shape re-extracted: DepthFrontier.nestingLevelsF = the frontier of selection lists of today's tree; DepthMerged.nestingLevelsM = "
                 'one list per level, proposed fix C19-H3) and proved equal to the recursive measure on acyclic documents: nestingLevelsFS_ok, '
                 'frontier_eq_recursive, ruleF_eq_ruleB, flags_iff_final_frontier, ruleF_never_raises (and the same five for the merged loop); for the CURRENT '
                 'rule also name_filter_final / name_filter_frontier, pipeline_rejects_iff_final (pipelineB), ruleB_eq_expected (Props/C19_current.lean) - the '
                 'theorems about rule / ruleV / ruleR / ruleRT / depthFixed are layers about intermediate patch states and say so in their doc comments. '
                 "Outside probe C19-1 (a directive that DECIDES next to one that cannot be evaluated is ignored by today's hook: `q @skip(if: true) "
                 '@include(if: $unknown) { … }` is measured): decisive_directive_kept_today (model = code), hunter_depth_zero; proposed fix C19-H4 modelled '
                 'behind the re-extracted flag separateDirectives (skipSelectionT3, ruleF3 / ruleM3, Lemmas/DepthSeparate): skipT3_eq_T_of_bound, '
                 'skipT3_skips_more, measuredF3_eq_depthK3, flags_iff_final_separate, decisive_directive_skipped_repaired; deterministic class decisive-probe '
                 'with the three-valued reference. selected_fields: selected_fields_exact (listed paths = selected paths within maxdepth matching the '
                 'pattern), _sound, _complete, _exact_lenient, _lenient_eq_strict. decide refutations for the original rule and the original selected_fields '
                 '(Props/C19_orig.lean, C19_paths.lean). Tied by correspondence (error set per operation, raises, listed paths) and the direct oracles flagged '
                 '<=> reference depth > limit and listed = reference paths on exhaustive small distributions of a selection over inline / named fragments, raw '
                 'JSON variable assignments, histories on one rule instance and Document, cyclic documents, wide selection sets, deep chains (500..3000), also '
                 'through graphql_blocking(validators=[default, rule]).',
         'note': 'Trusted: Lean kernel; generators; extraction of the variant flags and of the loop shape; the `id`-based de-duplication inside one level of '
                 '_nesting_levels is not modelled (result-transparent, exercised); statelessness of the rule between calls is checked by the history stream, '
                 'not proved; float forms of request variables are not generated. Proposed fix C19-H3 (one list per level: polynomial number of collections, '
                 'unedited suite passes; until it is applied the check reports H3 as a known finding) and C19-H4 (directives evaluated on their own; until '
                 'applied: known finding H4, known_findings.d/C19.json - to be removed with the fix). Known findings H1 (a FLAT operation behind ~988 '
                 'forwarding fragments is reported too deep: RecursionError inside one level; not a small repair: needs an explicit stack in '
                 'collect_fields_untyped, and validation / execution fail on such documents anyway), H3 (exponential number of collections with key merging '
                 'across levels; verdicts correct; fix proposed). Repaired: Q1, Q1sf, Q1-vars, Q1-vars2, Q2, Q3, H2.',
         'technique': 'Lean 4 proof (rule = spec depth on the live variant, wrapping invariance, path exactness) + exhaustive small-scope correspondence and '
                      'cost oracle'},
 'C20': {'text': 'Lean theorems about the safe-change predicates TRANSLATED from differ/__init__.py on every run (safeIn_iff: exact for all type expressions '
                 'read WITHOUT list input coercion; with it sound but conservative - safeIn_sound_coercion, safeIn_not_exact_with_list_coercion: Int -> [Int] '
                 'is reported BREAKING; safeOut_eq: the output predicate IS the subtype test except on the G1 class, safeOut_iff_outside_G1, '
                 'safeOut_iff_partial + machine-checked refutation of the full statement = finding G1; safeOut_base / safeIn_base) and about the severity '
                 'table EXTRACTED from changes.py (severity_table, compatibleRetypeSeverity). diff_schema itself is modelled in Lean (Diff.lean, root '
                 'operation types included) with: diff_refl / diff_schema_zero / diff_eqv_zero (equal up to the order of every list: nothing reported), '
                 'diff_perm and diff_perm_deep (+ _count, no_breaking_perm(_deep)): reordering ANY member list of either schema at any level - types, '
                 'directives, fields, arguments, enum values, input fields, union members, interfaces, locations - permutes the report (same multiset at every '
                 "filter); one *_reported theorem for EVERY elementary edit of the property's list and any_retyped_*_reported / compatibly_retyped_*_reported "
                 '(every retyping of a matched element is reported), reported_at_severity, min_severity_filters; nobreaking_args_permissive (semantic, full), '
                 'nobreaking_fields_strict_outside_G1 (lists included; the G1 class is the exact residue: nobreaking_fields_strict_full_fails_today), the '
                 'shape facts nobreaking_types_kept / kinds_kept / fields_kept / arguments_kept / no_*_becomes_required / enum_values_kept / '
                 "union_members_kept / input_fields / directives; and the clause 'no BREAKING change => every operation valid on the old schema is valid on "
                 "the new one': AS WORDED it is OperationsStayValidFull (Props/C20_full.lean, over the C06 validator model, all 26 rules) and is REFUTED "
                 '(operations_stay_valid_full_refuted; witnesses unrooted_operation_refutes_full = G6, same_response_shape_refutes_full = G4); what is proved '
                 'is PARTIAL: operations_stay_valid_all_but_overlap_partial (validator model, every rule but OverlappingFieldsCanBeMerged, under OpsRooted and '
                 'the well-formedness facts), resting on operations_stay_valid_rules_all (specification predicates); the older operations_stay_valid covers '
                 'only the STRUCTURAL predicate ValidDoc of C05 (no arguments, values, variables, directives) and is partial in the same sense. In detail: '
                 'operations_stay_valid_rules_all over the C06 SPECIFICATION predicates rule by rule, 25 of the 26 rules: operations_stay_valid_rules (8 '
                 'rules; views_compatible: the static output contexts of every node stay compatible), nobreaking_possibleFragmentSpreads, '
                 'nobreaking_valuesOfCorrectType (inputViews_compatible: the expected INPUT type of every position - argument, list item, input object field, '
                 'at any depth - is unknown on both sides or at least as permissive on the new one: argPos_rel / listItemPos_rel / objFieldPos_rel) and '
                 'nobreaking_variablesInAllowedPosition (usesValue_rel: every usage on the new schema is a usage on the old one at an at-least-as-strict '
                 'position; isSubtype_eq_sub: at input positions is_subtype is the strictness order), for all documents whose operations have a root type in '
                 'the old schema (necessary: unrooted_operation_refutes, finding G6). OverlappingFieldsCanBeMerged is FALSE (finding G4). Tied by exhaustive '
                 'comparison of the real predicates with the compiled model on all type pairs of depth<=3/4, comparison of the real diff_schema with the Lean '
                 'model on every generated schema pair (multiset of class, severity, identifying attributes), and a schema-level oracle (generated schema + '
                 'elementary edit + reverse edit, 20 edit kinds incl. root types; definition and inner-list permutations; code-built enums; live-object edits; '
                 'diff/clone/transform/in-place-visitor histories; schemas derived by argument-renaming/dropping transforms vs the same schema rebuilt from '
                 'its SDL; repeated diffs on the same objects; sampled valid operations re-validated on the new schema). ADDED IN THE BUG-HUNT ROUNDS: '
                 'compatible retypings are reported (compatibleRetypeSeverity re-extracted from _compatible): compatibly_retyped_*_reported and '
                 'any_retyped_*_reported for fields, arguments, input fields and directive arguments; ordered reports under five PYTHONHASHSEED values in '
                 'fresh interpreters; code-built schemas against the schema built from their own SDL; defaults enter the model as GraphQL values of their '
                 "position (gql_canon_default, independent of the library's printer).",
         'note': "Trusted: Lean kernel; py2lean translator; reference semantics of type expressions on abstract values (accepts); generators. diff_schema's "
                 'traversal is hand-modelled and tied by correspondence (not re-translated); hash ordering does not exist in the model (only `contains` is '
                 'asked: diff_perm_deep) and is exercised with PYTHONHASHSEED varied in fresh interpreters; memos of live schema objects are exercised only '
                 '(live-object and history classes). OldWf / NewWf / OldWfIn / NewWfIn (closed type map, well-formed argument types, unique argument and input '
                 'field names) are consequences of Schema.validate(), which diff_schema calls first; they are hypotheses, not derived from C13 here; the '
                 'input-side rules are stated for the validator WITH fix V9 (necessary: fix_v9_necessary; values_rule_necessary); '
                 "operations_stay_valid_of_valid (Props/C20_wf_of_valid.lean) takes C13's ValidSchema of both schemas instead, plus three facts about dumps "
                 '(DumpShape, built-in types listed, well-formed argument types). The inner-order oracle has a deterministic block (every member-list kind x '
                 'every removed element x rotations). Known findings G1, G4 (pinned by the suite), G6. Known findings G1, G4 (pinned). Repaired: G2, G3, G5, '
                 'Python-equal defaults, subclass kinds, hash-dependent order, defaults as GraphQL values.',
         'technique': 'Lean 4 proof (translated predicates, diff model: reflexivity, order independence at every level, every edit reported, operations stay '
                      'valid rule by rule over the C06 specification) + exhaustive small-scope correspondence + edit oracle'}}

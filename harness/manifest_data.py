# -*- coding: utf-8 -*-
"""Per-property manifest entries. One dict entry per CLAIMED property."""

HOOK_COMMITS = []

NOTES = ("All checks: `harness/check.py Cxx`. Each run re-extracts Generated/*.lean from /repo's working tree, "
         "rebuilds the property's Lean theorems and driver, audits axioms, then runs the correspondence and the "
         "direct property oracle on the real code. known_findings.json lists reproduced defects of the unchanged tree.")

NOT_APPLICABLE = {}

CHECKS = {
    "C10": {
        "text": ("Lean theorems about the hand model of index_to_loc / to_dict of every error class / GraphQLResult.response / the staged "
                 "process_graphql_query / the executors' error capture: loc_bounds (all texts, all positions), index_to_loc_total_iff, "
                 "data_omitted_iff, null_error_bijection, result_wellformed, response_wellformed_partial (+ refutation of the full statement: "
                 "the misspelt `columne` key, finding X1); response keys and the data=None flags of the _abort calls are re-extracted from "
                 "source each run; tied by stage-outcome correspondence and a direct WellFormed + bijection oracle on four configurations."),
        "note": ("Trusted: Lean kernel; extraction of key names/abort flags; stage internals (parse, validate, coerce) are observed through the real "
                 "functions, scalar serialisers and highlight_location only exercised; async/thread-pool scheduling compared as multisets."),
        "technique": "Lean 4 proof over staged response model + extracted keys + direct response-format oracle",
    },
    "C13": {
        "text": ("Lean theorems about a method-by-method model of SchemaValidator: validate_iff/accepts_iff (no error <=> ValidSchema), "
                 "subtype_iff about Schema.is_subtype TRANSLATED from source on every run, perm_types, reports_all, "
                 "cache_sound over all histories of validate/register_* (replace_types partial + machine-checked refutation, ledger T3), "
                 "name_iff about the extracted VALID_NAME_RE classes; tied by correspondence (verdict + set of reporting rules) on "
                 "generated schemas with labelled violations, permutations and cache histories, and the labelled direct oracle."),
        "note": ("Trusted: Lean kernel; py2lean translator; extraction of name classes and rule format strings (used only to attribute errors); "
                 "inspect.signature, build_schema and fix_type_references are exercised, not modelled; direct assignment field.resolver=f is outside the statement."),
        "technique": "Lean 4 proof over hand model + source-translated is_subtype + labelled-violation correspondence",
    },
    "C20": {
        "text": ("Lean theorems about the safe-change predicates TRANSLATED from differ/__init__.py on every run "
                 "(safeIn_iff: exact for all type expressions; safeOut_iff_partial + machine-checked refutation of the "
                 "full statement = finding G1) and about the severity table EXTRACTED from changes.py; tied further by "
                 "exhaustive comparison of the real predicates with the compiled model on all type pairs of depth<=3/4 and "
                 "by a schema-level oracle (generated schema + elementary edit + reverse edit) on the real diff_schema. "
                 "diff_schema itself is modelled in Lean (Diff.lean) with theorems diff_refl (all schemas with unique names), "
                 "removed/retyped elements reported as BREAKING, nobreaking_args_permissive (semantic, full), "
                 "nobreaking_fields_strict_partial (list-free types; G1), min_severity_filters; the model is compared with the real "
                 "diff_schema on every generated schema pair (multiset of class, severity, identifying attributes)."),
        "note": ("Trusted: Lean kernel; py2lean translator; reference semantics of type expressions on abstract values "
                 "(accepts); generators. diff_schema's traversal is hand-modelled and tied by correspondence (not re-translated); "
                 "'every operation valid on old stays valid' is explored only at type-position level."),
        "technique": "Lean 4 proof over source-translated predicates + exhaustive small-scope correspondence + edit oracle",
    },
}

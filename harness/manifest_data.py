# -*- coding: utf-8 -*-
"""Per-property manifest entries. One dict entry per CLAIMED property."""

HOOK_COMMITS = []

NOTES = ("All checks: `harness/check.py Cxx`. Each run re-extracts Generated/*.lean from /repo's working tree, "
         "rebuilds the property's Lean theorems and driver, audits axioms, then runs the correspondence and the "
         "direct property oracle on the real code. known_findings.json lists reproduced defects of the unchanged tree.")

NOT_APPLICABLE = {}

CHECKS = {
    "C20": {
        "text": ("Lean theorems about the safe-change predicates TRANSLATED from differ/__init__.py on every run "
                 "(safeIn_iff: exact for all type expressions; safeOut_iff_partial + machine-checked refutation of the "
                 "full statement = finding G1) and about the severity table EXTRACTED from changes.py; tied further by "
                 "exhaustive comparison of the real predicates with the compiled model on all type pairs of depth<=3/4 and "
                 "by a schema-level oracle (generated schema + elementary edit + reverse edit) on the real diff_schema. "
                 "diff_schema itself is modelled in Lean (Diff.lean) with theorems diff_refl (all schemas with unique names), "
                 "removed/retyped elements reported as BREAKING, nobreaking_args_permissive (semantic, full), "
                 "nobreaking_fields_strict_partial (list-free types; G1), min_severity_filters; the model is compared with the real "
                 "diff_schema on every generated schema pair (multiset of class, severity, identifying attributes)."),
        "note": ("Trusted: Lean kernel; py2lean translator; reference semantics of type expressions on abstract values "
                 "(accepts); generators. diff_schema's traversal is hand-modelled and tied by correspondence (not re-translated); "
                 "'every operation valid on old stays valid' is explored only at type-position level."),
        "technique": "Lean 4 proof over source-translated predicates + exhaustive small-scope correspondence + edit oracle",
    },
}

#!/venv/bin/python
# -*- coding: utf-8 -*-
"""extract.py [Cxx ...] — regenerate lean/PyGqlModel/Generated/*.lean from /repo's working tree."""
import os
import sys

sys.path.insert(0, os.path.dirname(os.path.abspath(__file__)))
import common  # noqa: E402


def main():
    common.ensure_repo_on_path()
    props = sys.argv[1:] or sorted(p.stem for p in (common.VERIF / "harness" / "corr").glob("C[0-9][0-9].py"))
    rc = 0
    for prop in props:
        mod = common.load_corr(prop)
        ctx = common.Ctx(prop, "quick", 0)
        changed, err = common.regenerate(prop, mod, ctx)
        if err:
            print(prop, "EXTRACTION FAILED:", err)
            rc = 1
        elif changed:
            print(prop, "rewrote", ", ".join(changed))
    sys.exit(rc)


if __name__ == "__main__":
    main()

#!/bin/bash
# integrate2.sh <agent-name> [Cxx ...] — like integrate.sh, but merges (pull.rebase=false) and resolves conflicts in
# evidence/*.json by taking the builder's side (evidence is rewritten by the checks that follow).
set -u
name=$1; shift
cd /verif || exit 1
git config pull.rebase false
git pull --no-edit -q /tmp/w-$name HEAD 2>&1 | grep -v hint | tail -5
for f in $(git diff --name-only --diff-filter=U); do
  case $f in
    evidence/*|seeded/*/detection.json) git checkout --theirs -- $f; git add $f;;
    *) echo "UNRESOLVED CONFLICT: $f";;
  esac
done
if [ -n "$(git diff --name-only --diff-filter=U)" ]; then echo "merge needs manual resolution"; exit 1; fi
git commit -q --no-edit 2>/dev/null
python3 harness/manifest_gen.py
(cd lean && lake build 2>&1 | grep -E "^✖|error|Build completed" | head -20)
for p in "$@"; do
  for s in 0 1; do VERIF_SEED=$s timeout 900 /venv/bin/python harness/check.py $p 2>&1 | grep -v "^KNOWN-FINDING" | tail -3; done
done
git status --short | grep -v '^??' | head -5

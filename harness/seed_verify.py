#!/usr/bin/env python3
"""
seed_verify.py <Cxx> <k>   — confirm a seeded change produced by an independent sub-agent
(/tmp/seed-out/Cxx/k/{patch.diff,demo.py,meta.json}) in a fresh scratch worktree of /repo:
  * patch applies on a clean tree,  * unedited test-suite passes with it,
  * demo exits 0 on the clean tree and non-zero on the changed tree.
If all hold the change is kept as /verif/seeded/Cxx-k/ (patch.diff, demo.py, meta.json + what was run).
"""
import json
import os
import shutil
import subprocess
import sys

prop, k = sys.argv[1], sys.argv[2]
src = (sys.argv[3] if len(sys.argv) > 3 else "/tmp/seed-out") + "/%s/%s" % (prop, k)
wt = "/tmp/sv-%s-%s" % (prop, k)
PY = "/venv/bin/python"


def sh(cmd, cwd=None, env=None, timeout=900):
    e = dict(os.environ)
    e.update(env or {})
    p = subprocess.run(cmd, cwd=cwd, env=e, stdout=subprocess.PIPE, stderr=subprocess.STDOUT, timeout=timeout, shell=isinstance(cmd, str))
    return p.returncode, p.stdout.decode("utf-8", "replace")


subprocess.run(["git", "-C", "/repo", "worktree", "remove", "--force", wt], capture_output=True)
rc, out = sh(["git", "-C", "/repo", "worktree", "add", "-q", wt, "HEAD"])
assert rc == 0, out
res = {"property": prop, "k": k}
try:
    env = {"PYTHONPATH": wt + "/src"}
    rc, out = sh([PY, src + "/demo.py"], cwd=wt, env=env)
    res["demo_clean_exit"] = rc
    rc, out = sh(["git", "apply", src + "/patch.diff"], cwd=wt)
    res["patch_applies"] = rc == 0
    rc, out = sh([PY, "-m", "pytest", "-q", "-p", "no:cacheprovider", "-x"], cwd=wt, env=env)
    res["suite_tail"] = out.strip().splitlines()[-1][-200:] if out.strip() else ""
    res["suite_passes"] = rc == 0 and "1895 passed" in out
    rc, out = sh([PY, src + "/demo.py"], cwd=wt, env=env)
    res["demo_patched_exit"] = rc
    res["demo_patched_tail"] = out.strip()[-400:]
finally:
    subprocess.run(["git", "-C", "/repo", "worktree", "remove", "--force", wt], capture_output=True)
    subprocess.run(["git", "-C", "/repo", "worktree", "prune"], capture_output=True)
ok = res["patch_applies"] and res["suite_passes"] and res["demo_clean_exit"] == 0 and res["demo_patched_exit"] != 0
res["confirmed"] = ok
print(json.dumps(res, indent=1))
if ok:
    dst = "/verif/seeded/%s-%s" % (prop, k)
    os.makedirs(dst, exist_ok=True)
    shutil.copy(src + "/patch.diff", dst + "/patch.diff")
    shutil.copy(src + "/demo.py", dst + "/demo.py")
    meta = json.load(open(src + "/meta.json"))
    meta["confirmed_by_integrator"] = {
        "ran": ["git apply patch.diff on a fresh worktree of /repo HEAD",
                "pytest -q -p no:cacheprovider (unedited suite) on the changed tree: " + res["suite_tail"],
                "demo.py on clean tree: exit %d" % res["demo_clean_exit"],
                "demo.py on changed tree: exit %d" % res["demo_patched_exit"]],
        "demo_output_on_changed_tree": res["demo_patched_tail"],
    }
    json.dump(meta, open(dst + "/meta.json", "w"), indent=1)
sys.exit(0 if ok else 1)

#!/usr/bin/env python3
"""
seed_run.py <seed-id> [Cxx ...]  — apply /verif/seeded/<seed-id>/patch.diff to /repo, run the quick check of the
property it targets (or the listed properties), undo the change straight afterwards, and record the outcome in
/verif/seeded/<seed-id>/detection.json.
"""
import json
import subprocess
import sys
import time

sid = sys.argv[1]
d = "/verif/seeded/" + sid
meta = json.load(open(d + "/meta.json"))
props = sys.argv[2:] or [meta["property"]]
st = subprocess.run(["git", "-C", "/repo", "status", "--porcelain"], capture_output=True, text=True).stdout.strip()
assert not st, "/repo not clean: " + st
r = subprocess.run(["git", "-C", "/repo", "apply", d + "/patch.diff"], capture_output=True, text=True)
assert r.returncode == 0, r.stderr
out = {}
try:
    for p in props:
        t = time.time()
        r = subprocess.run(["/venv/bin/python", "/verif/harness/check.py", p, "--tier", "quick"], capture_output=True, text=True, cwd="/verif")
        lines = [l for l in r.stdout.splitlines() if l.startswith("VIOLATION")]
        out[p] = {"exit": r.returncode, "violation_lines": [l[:240] for l in lines][:5], "summary": r.stdout.strip().splitlines()[-1][:240] if r.stdout.strip() else "",
                  "wall_s": round(time.time() - t, 1)}
        print(p, "exit", r.returncode, "|", out[p]["summary"])
        for l in lines[:3]:
            print("   ", l[:200])
finally:
    subprocess.run(["git", "-C", "/repo", "checkout", "--", "."])
    subprocess.run(["git", "-C", "/repo", "clean", "-fdq", "src"])
# restore clean-tree state of generated files / evidence for the touched properties
for p in props:
    subprocess.run(["/venv/bin/python", "/verif/harness/check.py", p, "--tier", "quick"], capture_output=True, text=True, cwd="/verif")
prev = {}
try:
    prev = json.load(open(d + "/detection.json"))
except Exception:
    pass
prev.update(out)
json.dump(prev, open(d + "/detection.json", "w"), indent=1)

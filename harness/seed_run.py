#!/usr/bin/env python3
"""
seed_run.py <seed-id> [Cxx ...]   — run the quick check of the targeted property (or the listed ones) against an
independently seeded property-breaking change, WITHOUT touching /repo or /verif's build: the patch is applied to a
scratch worktree of /repo HEAD (/tmp/sr-repo, removed afterwards) and the checks run from a scratch clone of /verif
(/tmp/sr-verif, kept between runs and fast-forwarded) with PYGQL_REPO pointing at the worktree.
Outcome is recorded in /verif/seeded/<seed-id>/detection.json.
"""
import json
import os
import subprocess
import sys
import time

sid = sys.argv[1]
d = os.environ.get("SEED_BASE", "/verif/seeded") + "/" + sid
meta = json.load(open(d + "/meta.json"))
props = sys.argv[2:] or [meta["property"]]
if not sys.argv[2:] and os.path.exists(d + "/also.txt"):
    # sibling checks known to see this seed as well (or instead)
    props += [x for x in open(d + "/also.txt").read().split() if x not in props]
# SR_SLOT=<n>: an independent pair of scratch directories, so that several seeds can be run in parallel
_slot = os.environ.get("SR_SLOT", "")
SV, SR = "/tmp/sr-verif" + _slot, "/tmp/sr-repo" + _slot


def sh(cmd, **kw):
    return subprocess.run(cmd, capture_output=True, text=True, **kw)


if not os.path.isdir(SV):
    sh(["git", "clone", "-q", "/verif", SV])
    if os.path.isdir("/verif/lean/.lake") and not os.path.isdir(SV + "/lean/.lake"):
        sh(["cp", "-r", "/verif/lean/.lake", SV + "/lean/.lake"])      # start from /verif's build instead of an empty one
else:
    sh(["git", "-C", SV, "checkout", "--", "."])
    sh(["git", "-C", SV, "pull", "-q", "--no-edit", "/verif", "HEAD"])
sh(["git", "-C", "/repo", "worktree", "remove", "--force", SR])
r = sh(["git", "-C", "/repo", "worktree", "add", "-q", SR, "HEAD"])
assert r.returncode == 0, r.stderr
out = {}
try:
    r = sh(["git", "-C", SR, "apply", d + "/patch.diff"])
    if r.returncode != 0:
        r = sh(["git", "-C", SR, "apply", "-3", d + "/patch.diff"])
    if r.returncode != 0:
        print(sid, "PATCH DOES NOT APPLY on /repo HEAD:", r.stderr.strip()[:200])
        out = {"_error": "patch does not apply on /repo HEAD (fix commits changed its context); needs rebase"}
    else:
        env = dict(os.environ, PYGQL_REPO=SR)
        for p in props:
            t = time.time()
            try:
                r = sh(["/venv/bin/python", SV + "/harness/check.py", p, "--tier", "quick"], cwd=SV, env=env, timeout=420)
            except subprocess.TimeoutExpired:
                out[p] = {"exit": "timeout", "violation_lines": [], "summary": "check did not finish within 420 s (hang)", "signatures": []}
                print(sid, p, "TIMEOUT")
                continue
            lines = [l for l in r.stdout.splitlines() if l.startswith("VIOLATION")]
            summary = [l for l in r.stdout.splitlines() if not l.startswith("KNOWN-FINDING") and not l.startswith("VIOLATION")]
            out[p] = {"exit": r.returncode, "violation_lines": [l[:240].replace(SV, "/verif") for l in lines][:5],
                      "summary": summary[-1][:240] if summary else "", "wall_s": round(time.time() - t, 1),
                      "repo_head": sh(["git", "-C", "/repo", "rev-parse", "--short", "HEAD"]).stdout.strip(),
                      "verif_head": sh(["git", "-C", SV, "rev-parse", "--short", "HEAD"]).stdout.strip()}
            sigs = []
            for l in lines[:3]:
                try:
                    rp = json.load(open(l.split("replay=")[1].split()[0]))
                    sigs.append(rp.get("signature") or rp.get("kind"))
                except Exception:
                    pass
            out[p]["signatures"] = sigs
            print(sid, p, "exit", r.returncode, "|", out[p]["summary"], "|", sigs[:2])
finally:
    sh(["git", "-C", "/repo", "worktree", "remove", "--force", SR])
    sh(["git", "-C", "/repo", "worktree", "prune"])
prev = {}
try:
    prev = json.load(open(d + "/detection.json"))
except Exception:
    pass
if "_error" not in out:
    prev.pop("_error", None)
prev.update(out)
json.dump(prev, open(d + "/detection.json", "w"), indent=1)

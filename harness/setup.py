#!/venv/bin/python
# -*- coding: utf-8 -*-
"""setup: regenerate Generated/*.lean from /repo and build every Lean target (offline)."""
import os
import subprocess
import sys

sys.path.insert(0, os.path.dirname(os.path.abspath(__file__)))
import common  # noqa: E402


def main():
    rc = subprocess.call([sys.executable, os.path.join(os.path.dirname(os.path.abspath(__file__)), "extract.py")])
    if rc:
        print("extraction failed (continuing: the affected check will report it)")
    r = subprocess.call(["lake", "build"], cwd=str(common.LEAN))
    if r:
        print("lake build failed for some target (continuing: the affected check will report it)")
    sys.exit(0)


if __name__ == "__main__":
    main()

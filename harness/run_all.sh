#!/bin/bash
# run_all.sh [tier] [seed] — run every registered check once, print one line per property
tier=${1:-quick}; seed=${2:-0}
cd /verif
for p in $(python3 -c "import json; print(' '.join(c['property_id'] for c in json.load(open('MANIFEST.json'))['checks']))"); do
  out=$(VERIF_SEED=$seed timeout 3600 /venv/bin/python harness/check.py $p --tier $tier 2>&1); rc=$?
  echo "rc=$rc $(echo "$out" | grep -v '^KNOWN-FINDING' | tail -1)"
  echo "$out" | grep '^VIOLATION' | head -3
done

#!/bin/bash
# seed_missing.sh — run the seeded changes that have no detection result yet (or whose patch did not apply last time)
cd "$(dirname "$0")/.."
for d in seeded/*/; do
  id=$(basename $d)
  if [ -f $d/detection.json ] && ! grep -q '"_error"' $d/detection.json; then continue; fi
  rm -f $d/detection.json
  python3 harness/seed_run.py $id 2>&1 | tail -2
done

#!/usr/bin/env python3
"""fold_findings.py — merge known_findings.d/*.json (builders' fragments) into known_findings.json and remove the fragments."""
import glob
import json
import os

V = os.path.join(os.path.dirname(os.path.abspath(__file__)), "..")
main = json.load(open(V + "/known_findings.json"))
have = {(f["property"], f.get("signature")) for f in main["findings"]}
n = 0
for p in sorted(glob.glob(V + "/known_findings.d/*.json")):
    frag = json.load(open(p))
    for f in frag.get("findings", []):
        if (f["property"], f.get("signature")) not in have:
            main["findings"].append(f)
            have.add((f["property"], f.get("signature")))
            n += 1
    for s in frag.get("fixed", []):
        if s not in main["fixed"]:
            main["fixed"].append(s)
    os.remove(p)
json.dump(main, open(V + "/known_findings.json", "w"), indent=1, ensure_ascii=False)
print("folded", n, "findings")

#!/bin/bash
# usage: .seedrun.sh <seed-id> [prop]  -- /repo HEAD + C06-H7 + seed patch, check from this clone
sid=$1; prop=${2:-C06}
git -C /repo worktree remove --force /tmp/r-val1 >/dev/null 2>&1
git -C /repo worktree add -q /tmp/r-val1 HEAD || exit 9
cd /tmp/r-val1 && git apply /tmp/w-val1/proposed_fixes/C06-H7.patch || echo "H7 does not apply"
if ! git apply /verif/seeded/$sid/patch.diff 2>/dev/null; then git apply -3 /verif/seeded/$sid/patch.diff 2>/dev/null || { echo "$sid PATCH DOES NOT APPLY"; git -C /repo worktree remove --force /tmp/r-val1; exit 8; }; fi
cd /tmp/w-val1 && PYGQL_REPO=/tmp/r-val1 VERIF_SEED=0 timeout 600 /venv/bin/python harness/check.py $prop --tier quick > /tmp/w-val1/.seed_$sid.log 2>&1
echo "$sid $prop exit=$? $(grep -v '^KNOWN\|^VIOLATION' /tmp/w-val1/.seed_$sid.log | tail -1)"
grep '^VIOLATION' /tmp/w-val1/.seed_$sid.log | sed 's/.*replay=//' | awk '{print $1}' | while read r; do python3 -c "
import json,sys
d=json.load(open('$r')); print('   ', d.get('signature') or [x.get('signature') for x in d.get('no_longer_checks',[])][:3])"; done | sort | uniq -c | sort -rn | head -5
git -C /repo worktree remove --force /tmp/r-val1 >/dev/null 2>&1

"""C01: an IntValue `0` / `-0` directly followed by a digit is rejected, although
the June-2018 lexical grammar derives the text as two number tokens.

June 2018:  IntegerPart :: NegativeSign? 0 | NegativeSign? NonZeroDigit Digit*
with no look-ahead restriction on IntValue (`[lookahead != Digit]` was added in
the October-2021 edition together with the NameStart restriction).  Hence
`[00]` == `[0 0]`, `[01]` == `[0 1]`, `[-007]` == `[-0 0 7]`, `[00.5]` == `[0 0.5]`.

Run: PYTHONPATH=/tmp/hunt-0/src /venv/bin/python repro.py
"""
import sys

from py_gql.exc import GraphQLSyntaxError
from py_gql.lang import parse, parse_value

bad = 0


def strip(node):
    def rec(x):
        if isinstance(x, dict):
            return {k: rec(v) for k, v in x.items() if k != "loc"}
        if isinstance(x, list):
            return [rec(v) for v in x]
        return x

    return rec(node.to_dict())


cases = [
    ("[00]", "[0 0]", parse_value),
    ("[01]", "[0 1]", parse_value),
    ("[-007]", "[-0 0 7]", parse_value),
    ("[00.5]", "[0 0.5]", parse_value),
    ("{ a(x: [0, 00]) }", "{ a(x: [0, 0 0]) }", parse),
    ("query ($v: [Int] = [00]) { a }", "query ($v: [Int] = [0 0]) { a }", parse),
]
for glued, spaced, fn in cases:
    expected = strip(fn(spaced))
    try:
        got = strip(fn(glued))
    except GraphQLSyntaxError as err:
        print("%-34r REJECTED: %s (position %d); %r is accepted" % (glued, err.message, err.position, spaced))
        bad += 1
    else:
        same = got == expected
        print("%-34r accepted, same tree as %r: %s" % (glued, spaced, same))
        if not same:
            bad += 1

if bad:
    print("VIOLATION: %d texts derivable from the June-2018 grammar were rejected" % bad)
    sys.exit(1)
print("ok")

"""
C07: a LIST literal at a position which is not a list (Int, String, Boolean,
ID, Float, enum, input object - as argument, as input-object field, as
directive argument, as variable default) is a structurally wrong value but is
NOT rejected by validation.  The request starts executing: resolvers run (a
mutation performs its side effects) and only then the malformed argument is
reported, as a field error / partial response.

Every other structurally wrong literal ({a: 1} for Int, "A" for an enum, 1 for
[Int] items of wrong kind, ...) is refused before execution with no `data`.

Exit 1 when a resolver ran although the document carries a structurally wrong
value, 0 otherwise.
"""
import sys

from py_gql import build_schema, graphql_blocking

SDL = """
enum E { A B }
input In { a: Int e: E }
type Query { ok: Int }
type Mutation {
    bump: Int
    set(i: Int, s: String, b: Boolean, id: ID, fl: Float, e: E, o: In, l: [Int]): Int
}
"""

schema = build_schema(SDL)
calls = []


def bump(root, ctx, info):
    calls.append("bump")
    return 1


def set_(root, ctx, info, **kwargs):
    calls.append(("set", kwargs))
    return 2


schema.register_resolver("Mutation", "bump", bump)
schema.register_resolver("Mutation", "set", set_)

CASES = [
    # (document, what is wrong)
    ("mutation { bump set(i: [1]) }", "list literal for Int"),
    ("mutation { bump set(s: [\"a\"]) }", "list literal for String"),
    ("mutation { bump set(b: [true]) }", "list literal for Boolean"),
    ("mutation { bump set(id: [1]) }", "list literal for ID"),
    ("mutation { bump set(fl: []) }", "list literal for Float"),
    ("mutation { bump set(e: [A]) }", "list literal for enum"),
    ("mutation { bump set(o: [{a: 1}]) }", "list literal for input object"),
    ("mutation { bump set(o: {a: [1]}) }", "list literal for Int input field"),
    ("mutation { bump set(o: {e: [A]}) }", "list literal for enum input field"),
    ("mutation { bump set(l: [[1]]) }", "nested list literal for [Int]"),
    ("mutation { bump set(i: 1) @skip(if: [false]) }", "list literal for @skip(if: Boolean!)"),
    # controls: other structurally wrong literals are refused by validation
    ("mutation { bump set(i: {a: 1}) }", "CONTROL object literal for Int"),
    ("mutation { bump set(e: \"A\") }", "CONTROL string literal for enum"),
    ("mutation { bump set(l: [\"x\"]) }", "CONTROL wrong item kind"),
]

violations = 0
for doc, what in CASES:
    del calls[:]
    result = graphql_blocking(schema, doc)
    response = result.response()
    ran = list(calls)
    rejected_before_execution = "data" not in response
    print("%s   (%s)" % (doc, what))
    print("    resolvers that ran :", ran)
    print("    response           :", response)
    if what.startswith("CONTROL"):
        assert rejected_before_execution and not ran, "control expected to be refused"
        continue
    if ran:
        violations += 1
        print("    VIOLATION: structurally wrong value, yet resolvers ran")
    elif not rejected_before_execution:
        # e.g. @skip(if: [false]): nothing ran but execution had started
        print("    (execution started: data key present)")

print()
if violations:
    print("%d structurally wrong documents were executed" % violations)
    sys.exit(1)
print("all structurally wrong documents were rejected before any resolver ran")
sys.exit(0)

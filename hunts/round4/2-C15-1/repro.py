"""
C15 (with a C07 facet): after the library's own VisibilitySchemaTransform hides
an input field, the default values that mention it are not pruned.

  input In { a: Int = 1  secret: Int = 2 }
  type Query { f(i: In = {a: 7, secret: 9}, l: [In!] = [{secret: 1}]): String }

hide In.secret ->

 * introspection (and to_string) report `i: In = {a: 7}`; that text parses
   back to {'a': 7}, which is NOT the declared default
   ({'a': 7, 'secret': 9}) the argument still carries;
 * `{ f }` hands the resolver i={'a': 7, 'secret': 9}: a key which is no input
   field of In (the same value written inline, `{ f(i: {a: 7, secret: 9}) }`,
   is rejected: "Field secret is not defined by type In"), whereas the
   introspected default written inline, `{ f(i: {a: 7}) }`, gives {'a': 7}.

Exit 1 on violation, 0 otherwise.
"""
import sys

from py_gql import build_schema, graphql_blocking
from py_gql.lang import parse_value
from py_gql.schema.transforms import VisibilitySchemaTransform, transform_schema
from py_gql.utilities import introspection_query, value_from_ast

SDL = """
input In { a: Int = 1 secret: Int = 2 }
input Outer { inner: In = {a: 3} }
type Query {
    f(i: In = {a: 7, secret: 9}, o: Outer = {}, l: [In!] = [{secret: 1}]): String
}
"""


class HideSecret(VisibilitySchemaTransform):
    def is_input_field_visible(self, typename, fieldname):
        return fieldname != "secret"


schema = transform_schema(build_schema(SDL), HideSecret())
schema.validate()

received = []
schema.register_resolver(
    "Query", "f", lambda root, ctx, info, **kw: received.append(kw) or "x"
)

result = graphql_blocking(schema, introspection_query())
assert not result.errors, result.errors
types = {t["name"]: t for t in result.response()["data"]["__schema"]["types"]}
assert [f["name"] for f in types["In"]["inputFields"]] == ["a"]

violation = False
field = schema.types["Query"].field_map["f"]
for arg in types["Query"]["fields"][0]["args"]:
    declared = field.argument_map[arg["name"]].default_value
    reported = arg["defaultValue"]
    back = value_from_ast(parse_value(reported), field.argument_map[arg["name"]].type)
    ok = back == declared
    print("%s: reported %-18s parses back to %-28r declared default %r  %s"
          % (arg["name"], reported, back, declared, "" if ok else "<-- MISMATCH"))
    violation = violation or not ok


def args_for(doc):
    del received[:]
    res = graphql_blocking(schema, doc)
    return received[0] if received else res.response()["errors"][0]["message"]


omitted = args_for("{ f }")
as_reported = args_for("{ f(i: {a: 7}, o: {inner: {a: 3}}, l: [{a: 1}]) }")
print()
print("arguments, all omitted             :", omitted)
print("arguments, reported defaults inline:", as_reported)
print("declared default of `i` inline     :", args_for("{ f(i: {a: 7, secret: 9}) }"))

if omitted != as_reported:
    print("VIOLATION: the effective defaults differ from the reported ones")
    violation = True
if any("secret" in d for d in [omitted["i"], omitted["o"]["inner"]] + omitted["l"]):
    print("VIOLATION (C07): resolver received the key of an input field that "
          "does not exist in the schema")
    violation = True

sys.exit(1 if violation else 0)

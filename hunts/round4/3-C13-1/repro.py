"""
C13 (SDL-built vs code-built): a VALID schema whose input object has a field
default written as a literal of an input type that refers back to the type
being built is never accepted when it comes from SDL: build_schema() dies with
RecursionError inside Schema() (before validate_schema can give a verdict),
while the very same schema built with the Python API validates and executes.

The default below is finite and complete (`next: null` is spelled out), so it
is valid under every version of the specification, including the recent
"input object default value cycle" rule.

exit 1 = violation (valid schema not accepted), exit 0 = accepted.
"""
import sys

from py_gql import build_schema, graphql_blocking
from py_gql.schema import (
    Argument,
    Field,
    InputField,
    InputObjectType,
    Int,
    ObjectType,
    Schema,
)

SDL_CASES = [
    # self reference
    """
    input Node { value: Int, next: Node = {value: 1, next: null} }
    type Query { f(n: Node): Int }
    """,
    # mutual reference
    """
    input A { x: Int, b: B = {x: 1, a: null} }
    input B { x: Int, a: A = {x: 2, b: null} }
    type Query { f(a: A): Int }
    """,
]

# 1. The same schema as SDL_CASES[0], built with the Python API.
Node = InputObjectType(
    "Node",
    lambda: [
        InputField("value", Int),
        InputField("next", Node, default_value={"value": 1, "next": None}),
    ],
)
code_built = Schema(
    ObjectType(
        "Query",
        [
            Field(
                "f",
                Int,
                args=[Argument("n", Node)],
                resolver=lambda root, ctx, info, n=None: n["next"]["value"],
            )
        ],
    )
)
code_built.validate()
print("code-built schema: validate() passes")
print(
    "code-built schema: { f(n: {value: 0}) } ->",
    graphql_blocking(code_built, "{ f(n: {value: 0}) }").response(),
)
print("code-built schema printed as SDL:")
print(code_built.to_string())

# 2. The SDL route.
failed = False
for sdl in SDL_CASES:
    try:
        schema = build_schema(sdl)
    except RecursionError as err:
        failed = True
        print("build_schema(valid SDL) -> RecursionError:", err)
        print("   SDL was:", " ".join(sdl.split()))
    except Exception as err:  # any other refusal of a valid schema
        failed = True
        print("build_schema(valid SDL) -> %s: %s" % (type(err).__name__, err))
    else:
        schema.validate()
        print("build_schema(valid SDL) accepted:", " ".join(sdl.split()))

# 3. Round trip of the code-built (validated) schema through its own SDL.
try:
    build_schema(code_built.to_string())
    print("round trip of the code-built schema through to_string(): accepted")
except RecursionError as err:
    failed = True
    print("build_schema(code_built.to_string()) -> RecursionError:", err)

sys.exit(1 if failed else 0)

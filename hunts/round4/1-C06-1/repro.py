"""
C06: a LIST literal at a custom scalar position is never validated as the
literal of that scalar: its ITEMS are validated one by one against the scalar
(and variables inside it are checked against the scalar type).

Consequences (verdicts that do not match the specification, "Values of Correct
Type": a literal is valid iff the coercion rules of the expected type accept
it, and for a custom scalar these rules are its `parse_literal`):

 1. a list literal the scalar ACCEPTS is rejected   ({ f(p: [1, 2]) })
 2. a list literal the scalar REJECTS is accepted   ({ f(p: []) })
 3. with the library's own transparent scalar (`scalar J` built from SDL)
    `query ($v: Int) { j(x: [$v]) }` is rejected ('Variable "$v" of type Int
    used in position expecting type J') while the same variable in
    `{a: $v}` / `{a: [$v]}` is accepted; all three execute fine.

Object literals at the same position ARE handed to the scalar as a whole
(`{ f(p: {a: 1}) }` -> parse_literal(ObjectValue)): the asymmetry is list vs
object literal.

Run: PYTHONPATH=/tmp/hunt-1/src /venv/bin/python repro.py
"""
import sys

from py_gql import build_schema
from py_gql.execution import execute
from py_gql.lang import ast, parse
from py_gql.schema import Argument, Field, ObjectType, ScalarType, Schema, String
from py_gql.validation import validate_ast

bad = False


def verdict(schema, query):
    return [str(e) for e in validate_ast(schema, parse(query))]


# --- 1 / 2: a scalar with its own literal coercion -----------------------
def parse_pair_literal(node, variables=None):
    if (
        not isinstance(node, ast.ListValue)
        or len(node.values) != 2
        or not all(isinstance(v, ast.IntValue) for v in node.values)
    ):
        raise ValueError("IntPair must be a list of two integers")
    return tuple(int(v.value) for v in node.values)


def parse_pair(value):
    if (
        not isinstance(value, (list, tuple))
        or len(value) != 2
        or not all(type(v) is int for v in value)
    ):
        raise ValueError("IntPair must be a list of two integers")
    return tuple(value)


IntPair = ScalarType(
    "IntPair", serialize=list, parse=parse_pair, parse_literal=parse_pair_literal
)

pair_schema = Schema(
    ObjectType(
        "Query",
        [
            Field(
                "f",
                String,
                [Argument("p", IntPair)],
                resolver=lambda root, ctx, info, p=None: repr(p),
            )
        ],
    )
)
pair_schema.validate()

for query, literal_is_valid in (
    ("{ f(p: [1, 2]) }", True),
    ("{ f(p: []) }", False),
    ("{ f(p: [1, 2, 3]) }", False),
    ("{ f(p: {a: 1}) }", False),  # control: object literal, whole literal checked
):
    errors = verdict(pair_schema, query)
    executed = execute(pair_schema, parse(query)).response()
    print(query)
    print("   IntPair.parse_literal accepts the literal:", literal_is_valid)
    print("   validation errors:", errors)
    print("   execution        :", executed)
    if literal_is_valid != (not errors):
        print("   VIOLATION: verdict does not follow the scalar's literal coercion")
        bad = True

# --- 3: the transparent scalar of SDL built schemas ----------------------
sdl_schema = build_schema("scalar J  type Query { j(x: J): String }")


@sdl_schema.resolver("Query.j")
def resolve_j(root, ctx, info, x=None):
    return repr(x)


for query in (
    "query ($v: Int) { j(x: {a: $v}) }",
    "query ($v: Int) { j(x: {a: [$v]}) }",
    "query ($v: Int) { j(x: [$v]) }",
    "query ($v: Int) { j(x: [[$v]]) }",
):
    errors = verdict(sdl_schema, query)
    executed = execute(sdl_schema, parse(query), variables={"v": 5}).response()
    print(query)
    print("   validation errors:", errors)
    print("   execution {v: 5} :", executed)
    if errors:
        print(
            "   VIOLATION: no rule of the specification is broken (there is "
            "no expected type inside a custom scalar literal), the object "
            "spelling is accepted"
        )
        bad = True

sys.exit(1 if bad else 0)

"""
C05: `subscription { __typename }` passes validation (June-2018 rules: one
root field, `__typename` exists on every composite type) and then cannot be
executed: `subscribe()` raises a bare RuntimeError that blames the schema
author for something they cannot provide.

    RuntimeError: Subscription field __typename should provide a subscription resolver.

A refused subscription is otherwise reported with the library's
ExecutionError (e.g. "Subscription operation must specify only one field."),
which callers are told to catch; RuntimeError is the "your schema is
misconfigured" channel. Here the schema is fine and the document validated.

Run: PYTHONPATH=/tmp/hunt-1/src /venv/bin/python repro.py
"""
import asyncio
import sys

from py_gql import build_schema
from py_gql.exc import GraphQLError
from py_gql.execution import subscribe
from py_gql.execution.runtime import AsyncIORuntime
from py_gql.lang import parse
from py_gql.validation import validate_ast

schema = build_schema(
    """
    type Query { a: Int }
    type Subscription { ticks: Int }
    """
)


class Ticks:
    def __init__(self):
        self.i = 0

    def __aiter__(self):
        return self

    async def __anext__(self):
        self.i += 1
        if self.i > 2:
            raise StopAsyncIteration
        return {"ticks": self.i}


schema.register_subscription("Subscription", "ticks", lambda r, c, i: Ticks())
schema.validate()

loop = asyncio.new_event_loop()
asyncio.set_event_loop(loop)

bad = False


async def run(query):
    global bad
    doc = parse(query)
    errors = [str(e) for e in validate_ast(schema, doc)]
    print(query)
    print("   validation:", errors)
    if errors:
        return
    try:
        stream = await subscribe(schema, doc, runtime=AsyncIORuntime(loop=loop))
        async for result in stream:
            print("   event:", result.response())
    except GraphQLError as err:
        print("   refused with a GraphQL error: %r" % err)
    except Exception as err:
        print("   VIOLATION: validated operation raised %r" % err)
        bad = True


for q in (
    "subscription { ticks }",  # control
    "subscription { __typename }",
    "subscription { alias: __typename }",
    "subscription { ...F } fragment F on Subscription { __typename }",
):
    loop.run_until_complete(run(q))

sys.exit(1 if bad else 0)

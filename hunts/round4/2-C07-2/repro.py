"""
C07 (also C15 / C10): `scalar Date` declared in SDL and implemented afterwards
by a plain SchemaVisitor through the public `transform_schema` (the generic
form of what a SchemaDirective.on_scalar does): the defaults written in the
SDL stay the values the stand-in scalar produced at build time (raw strings).

 - the resolver receives '2020-01-02' (str) when the argument is omitted and
   datetime.date(2020, 1, 2) when the very same literal is written inline or
   sent through a variable: the declared default does not conform to the
   declared input type, inline / default disagree;
 - the standard introspection query raises out of graphql_blocking (the
   scalar's serializer is handed the str) instead of returning a response.

The same replacement done by a SchemaDirective (apply_schema_directives)
re-evaluates the SDL defaults (`_literal_defaults`), transform_schema does not.

Exit 1 on violation, 0 otherwise.
"""
import datetime
import sys

from py_gql import build_schema, graphql_blocking
from py_gql.schema import ScalarType, SchemaVisitor
from py_gql.schema.transforms import transform_schema
from py_gql.utilities import introspection_query

SDL = """
scalar Date
input Range { start: Date = "2020-01-01" }
type Query { f(day: Date = "2020-01-02", days: [Date] = ["2020-01-03"], r: Range = {}): Int }
"""


class ImplementDate(SchemaVisitor):
    def on_scalar(self, scalar):
        if scalar.name == "Date":
            return ScalarType(
                "Date",
                serialize=lambda d: d.isoformat(),
                parse=lambda s: datetime.date.fromisoformat(s),
            )
        return scalar


schema = transform_schema(build_schema(SDL), ImplementDate())
schema.validate()

received = []
schema.register_resolver(
    "Query", "f", lambda root, ctx, info, **kw: received.append(kw) or 1
)


def run(doc, variables=None):
    del received[:]
    result = graphql_blocking(schema, doc, variables=variables)
    assert not result.errors, result.errors
    return received[0]


by_default = run("{ f }")
inline = run('{ f(day: "2020-01-02", days: ["2020-01-03"], r: {start: "2020-01-01"}) }')
by_variable = run(
    "query($d: Date, $ds: [Date], $r: Range) { f(day: $d, days: $ds, r: $r) }",
    {"d": "2020-01-02", "ds": ["2020-01-03"], "r": {"start": "2020-01-01"}},
)
filled = run("{ f(r: {}) }")

print("defaults   :", by_default)
print("inline     :", inline)
print("variables  :", by_variable)
print("r: {}      :", filled["r"])

violation = False
if inline != by_variable:
    print("VIOLATION: inline and variable disagree")
    violation = True
if by_default != inline:
    print("VIOLATION: the declared defaults reach the resolver as %r, the same "
          "literals written in the request as %r" % (by_default, inline))
    violation = True


def is_date(v):
    return isinstance(v, datetime.date)


if not (is_date(by_default["day"]) and all(map(is_date, by_default["days"]))
        and is_date(by_default["r"]["start"]) and is_date(filled["r"]["start"])):
    print("VIOLATION: default values handed to the resolver are not values of "
          "the declared scalar (str instead of datetime.date)")
    violation = True

try:
    response = graphql_blocking(schema, introspection_query()).response()
    print("introspection errors:", response.get("errors"))
except Exception as err:  # noqa
    print("VIOLATION (C15/C10): introspection query raised %s: %s"
          % (type(err).__name__, err))
    violation = True

sys.exit(1 if violation else 0)

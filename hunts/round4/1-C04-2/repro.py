"""
C04: executing a small, validated operation takes time (and memory)
exponential in the number of fragments: the executor's CollectFields forgets
which fragments it has already visited whenever the visited set is still empty
when it recurses, so a fragment spread twice (through inline fragments) is
expanded twice, at every level.

    { ...F0 }
    fragment F0 on Query { ... { ...F1 } ... { ...F1 } }
    fragment F1 on Query { ... { ...F2 } ... { ...F2 } }
    ...
    fragment Fn on Query { a }

The specification's CollectFields visits every named fragment at most once per
selection set (visitedFragments): the field `a` is collected ONCE and the
operation is executed in time linear in the document. Here the response key
`a` is backed by 2**n copies of the same field node (visible to the resolver
as info.nodes) and the time doubles per fragment: a 1.7 kB validated document
(n = 30) does not return.

Run: PYTHONPATH=/tmp/hunt-1/src /venv/bin/python repro.py
"""
import sys
import time

from py_gql import build_schema, graphql_blocking, process_graphql_query
from py_gql.lang import parse
from py_gql.utilities import collect_fields
from py_gql.validation import validate_ast

schema = build_schema("type Query { a: Int }")

seen_nodes = []


@schema.resolver("Query.a")
def resolve_a(root, ctx, info):
    seen_nodes.append(len(info.nodes))
    return 1


def document(n):
    return (
        "{ ...F0 }\n"
        + "\n".join(
            "fragment F%d on Query { ... { ...F%d } ... { ...F%d } }"
            % (i, i + 1, i + 1)
            for i in range(n)
        )
        + "\nfragment F%d on Query { a }" % n
    )


bad = False

for n in (2, 6, 10, 14, 16):
    src = document(n)
    doc = parse(src)

    t0 = time.time()
    errors = list(validate_ast(schema, doc))
    t_validate = time.time() - t0
    assert not errors, errors

    # Public helper used by the executor.
    grouped = collect_fields(
        schema, schema.query_type, doc.definitions[0].selection_set.selections,
        doc.fragments, {},
    )

    timings = {}
    for label, fn in (
        ("graphql_blocking", graphql_blocking),
        ("process_graphql_query", process_graphql_query),
    ):
        del seen_nodes[:]
        t0 = time.time()
        result = fn(schema, doc)
        timings[label] = time.time() - t0
        assert result.response() == {"data": {"a": 1}}, result.response()

    print(
        "n=%2d (%4d bytes) validate %.3fs | nodes collected for `a`: %6d "
        "(info.nodes: %s) | blocking %.3fs generic %.3fs"
        % (
            n,
            len(src),
            t_validate,
            len(grouped["a"]),
            seen_nodes,
            timings["graphql_blocking"],
            timings["process_graphql_query"],
        )
    )
    # `a` is written once in the document and every fragment has to be
    # visited once: one node.
    if len(grouped["a"]) != 1 or seen_nodes != [1]:
        bad = True

# The duplication is also visible in the response itself: the error of a
# field collected twice lists the same location twice, and only when the inline
# fragment comes BEFORE the plain spread (the visited set is then still empty).
nn_schema = build_schema("type Query { nn: Int! }")
for src in (
    "{ ...F1 ... { ...F1 } } fragment F1 on Query { nn }",
    "{ ... { ...F1 } ...F1 } fragment F1 on Query { nn }",
):
    response = graphql_blocking(nn_schema, src, root={"nn": None}).response()
    locations = response["errors"][0]["locations"]
    print(src, "->", response["errors"])
    if len(response["errors"]) != 1 or len(locations) != 1:
        print("   VIOLATION: the single field node `nn` is reported %d times" % len(locations))
        bad = True

if bad:
    print(
        "VIOLATION: fragments are expanded 2**n times by the executor's "
        "CollectFields (validation is linear): execution time doubles per "
        "fragment"
    )

sys.exit(1 if bad else 0)

"""
C11: defaults of an input field whose type is a MUTUALLY RECURSIVE input type
are not coerced to the extended type, and an extension that makes such a
default invalid is accepted.

    input In    { a: Int  other: Other }      # In -> Other
    input Other { x: In = {a: 3} }            # Other -> In, with a default
    extend input In { added: Int = 7 }        # (A) valid document
    extend input In { req: Int! }             # (B) invalid: {a: 3} lacks req

The only difference with the control documents is the back reference
`other: Other` (no default, nullable, never used by the default value).
"""
import sys

from py_gql import build_schema, graphql_blocking
from py_gql.exc import ExtensionError, SchemaError, SDLError
from py_gql.utilities import introspection_query

failed = False


def doc(back_reference, extension):
    return """
    input In { a: Int %s }
    input Other { x: In = {a: 3} }
    type Query { f(o: Other): String }
    %s
    """ % (
        "other: Other" if back_reference else "",
        extension,
    )


def seen_by_resolver(schema, query):
    schema.default_resolver = lambda root, ctx, info, **kw: repr(kw)
    result = graphql_blocking(schema, query)
    assert not result.errors, result.errors
    return result.data["f"]


# ---------------------------------------------------------------- (A) valid
ext = "extend input In { added: Int = 7 }"
control = build_schema(doc(False, ext))
subject = build_schema(doc(True, ext))
d_control = control.types["Other"].field_map["x"].default_value
d_subject = subject.types["Other"].field_map["x"].default_value
print("(A) control  Other.x default:", d_control)
print("(A) mutually recursive Other.x default:", d_subject)
via_default = seen_by_resolver(subject, "{ f(o: {}) }")
via_literal = seen_by_resolver(subject, "{ f(o: {x: {a: 3}}) }")
print("(A) resolver, x taken from its default   :", via_default)
print("(A) resolver, same literal written inline:", via_literal)
if d_subject != d_control or via_default != via_literal:
    print(
        "VIOLATION (A): the declared default {a: 3} is not coerced to the "
        "declared (extended) type In: `added: 7` is missing"
    )
    failed = True

# -------------------------------------------------------------- (B) invalid
ext = "extend input In { req: Int! }"
try:
    build_schema(doc(False, ext))
    print("(B) control: BUILT (unexpected)")
except (SDLError, SchemaError, ExtensionError) as err:
    print("(B) control rejected:", type(err).__name__, err)

try:
    subject = build_schema(doc(True, ext))
except (SDLError, SchemaError, ExtensionError) as err:
    print("(B) mutually recursive rejected:", type(err).__name__, err)
else:
    print(
        "(B) mutually recursive: BUILT, Other.x default =",
        subject.types["Other"].field_map["x"].default_value,
    )
    try:
        subject.to_string()
    except Exception as err:  # noqa
        print("    to_string() raises", type(err).__name__, err)
    print(
        "    introspection errors:",
        graphql_blocking(subject, introspection_query()).errors,
    )
    print(
        "VIOLATION (B): a document whose default value lacks a required "
        "field is accepted"
    )
    failed = True

sys.exit(1 if failed else 0)

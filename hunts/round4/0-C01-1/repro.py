"""C01: a syntax error cannot be rendered as a *response-error dictionary*:
GraphQLSyntaxError.to_dict() emits the location under the misspelled key
"columne" instead of "column" (every other located error of the library and
the GraphQL response format use "column").

Run: PYTHONPATH=/tmp/hunt-0/src /venv/bin/python repro.py
"""
import sys

from py_gql import graphql_blocking
from py_gql.exc import GraphQLSyntaxError
from py_gql.lang import parse, parse_type, parse_value
from py_gql.sdl import build_schema

bad = 0

for label, fn, text in [
    ("parse", parse, "{ a(x: 1.) }"),
    ("parse (bytes)", parse, b"\n\n{ a "),
    ("parse_value", parse_value, "[1, }"),
    ("parse_type", parse_type, "[Int"),
]:
    try:
        fn(text)
    except GraphQLSyntaxError as err:
        d = err.to_dict()
        loc = d["locations"][0]
        print("%-14s %r -> locations=%r" % (label, text, d["locations"]))
        if "column" not in loc or set(loc) != {"line", "column"}:
            bad += 1
    else:
        print("unexpectedly accepted", text)

# The same dictionary is what ends up in an actual GraphQL response.
schema = build_schema("type Query { a: Int }")
response = graphql_blocking(schema, "{ a ").response()
print("response:", {"errors": [{k: v for k, v in e.items() if k != "message"} for e in response["errors"]]})
for e in response["errors"]:
    for loc in e.get("locations", []):
        if set(loc) != {"line", "column"}:
            bad += 1

# For comparison: a validation error (GraphQLLocatedError) of the same library.
response = graphql_blocking(schema, "{ b }").response()
print("validation error locations:", response["errors"][0]["locations"])

if bad:
    print("VIOLATION: %d syntax-error locations lack the 'column' key (found 'columne')" % bad)
    sys.exit(1)
print("ok")

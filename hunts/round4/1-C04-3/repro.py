"""
C04: a field excluded by `@skip(if: true)` still fails the request when its
`@include` condition cannot be coerced (nullable variable with a default,
explicitly set to null):

    query ($v: Boolean = true) { a @skip(if: true) @include(if: $v)  b }
    variables {"v": null}

Valid document ($v has a default, so it may be used at `Boolean!`), accepted
variables ($v is nullable). CollectFields of the specification looks at @skip
FIRST and moves on to the next selection when it is true: `a` is skipped, the
@include condition is never looked at, the response is {"data": {"b": 2}}.

The library evaluates both directives eagerly: the null @include argument
raises, which is reported as an error of the enclosing field -> at the root
the whole response is `data: null`.

Run: PYTHONPATH=/tmp/hunt-1/src /venv/bin/python repro.py
"""
import sys

from py_gql import build_schema, graphql_blocking, process_graphql_query
from py_gql.lang import parse
from py_gql.validation import validate_ast

schema = build_schema("type Query { a: Int, b: Int, o: Query }")
root = {"a": 1, "b": 2}
root["o"] = root

bad = False
for query, expected in (
    (
        "query ($v: Boolean = true) { a @skip(if: true) @include(if: $v) b }",
        {"b": 2},
    ),
    (
        "query ($v: Boolean = true) { o { a @skip(if: true) @include(if: $v) b } b }",
        {"o": {"b": 2}, "b": 2},
    ),
):
    assert not list(validate_ast(schema, parse(query)))
    for name, fn in (
        ("graphql_blocking", graphql_blocking),
        ("process_graphql_query", process_graphql_query),
    ):
        # control: variable omitted -> default true -> a skipped anyway
        control = fn(schema, query, variables={}, root=root).response()
        response = fn(schema, query, variables={"v": None}, root=root).response()
        print(name, query)
        print("   variables {}         ->", control)
        print("   variables {v: null}  ->", response)
        if response != {"data": expected}:
            print("   VIOLATION: expected", {"data": expected})
            bad = True

sys.exit(1 if bad else 0)

"""
C06: an ENUM literal (a bare name) at the position of a custom scalar defined
the documented simple way (serialize + parse, no parse_literal) passes
validation although the library's literal coercion for that scalar rejects
every enum literal: the validated operation can never execute that field.

    scalar S2 (parse = upper-case a str)      { f(s: FOO) }

 validate_ast      -> []            (accepted)
 execute           -> 'Argument "s" of type "S2" was provided invalid value FOO
                       (Invalid literal EnumValue for scalar type S2)'

Scalars with a parse_literal (RegexType, UUID) and the built-in scalars report
the same literal at validation ("Expected type Rx, found abc").

Run: PYTHONPATH=/tmp/hunt-1/src /venv/bin/python repro.py
"""
import sys

from py_gql.execution import execute
from py_gql.lang import parse
from py_gql.schema import (
    Argument,
    Field,
    ObjectType,
    RegexType,
    ScalarType,
    Schema,
    String,
)
from py_gql.validation import validate_ast


def parse_s2(value):
    if not isinstance(value, str):
        raise ValueError("S2 expects a string, got %r" % (value,))
    return value.upper()


S2 = ScalarType("S2", serialize=str, parse=parse_s2)
Rx = RegexType("Rx", r"^[a-zA-Z]+$")

schema = Schema(
    ObjectType(
        "Query",
        [
            Field(
                "f",
                String,
                [Argument("s", S2), Argument("r", Rx), Argument("b", String)],
                resolver=lambda root, ctx, info, **kw: repr(sorted(kw.items())),
            )
        ],
    )
)
schema.validate()

bad = False
for query in (
    '{ f(s: "foo") }',  # control: valid, executes
    "{ f(r: FOO) }",  # control: custom scalar with parse_literal, rejected
    "{ f(b: FOO) }",  # control: built-in scalar, rejected
    "{ f(s: FOO) }",  # custom scalar without parse_literal
):
    doc = parse(query)
    errors = [str(e) for e in validate_ast(schema, doc)]
    response = execute(schema, doc).response()
    coercion_failed = any(
        "invalid value" in e["message"] for e in response.get("errors", [])
    )
    print(query)
    print("   validation:", errors)
    print("   execution :", response)
    if not errors and coercion_failed:
        print(
            "   VIOLATION: validation accepts a literal that the type's "
            "literal coercion always rejects"
        )
        bad = True

sys.exit(1 if bad else 0)

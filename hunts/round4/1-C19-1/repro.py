"""
C19: MaxDepthValidationRule reports "depth exceeds maximum depth" for an
operation whose nesting depth is 0 under EVERY variable assignment.

When one of the two conditions of a selection carrying both @skip and @include
cannot be evaluated (its variable is not available to the rule: no variables
were given, or the request executes another operation of the document), the
rule keeps the selection even though the OTHER condition already excludes it:

    q @skip(if: true) @include(if: $b) { q { q { q { a } } } }

`@skip(if: true)` removes the field whatever `$b` is (the specification skips
a selection when @skip is true OR @include is false). The rule documents that
an unknown condition yields "an upper bound over the unknown condition": that
upper bound is 0 here, the rule reports 3.

Effect: a request executing the shallow operation A of a document is refused
because of operation B which can never be deeper than the limit.

Run: PYTHONPATH=/tmp/hunt-1/src /venv/bin/python repro.py
"""
import sys

from py_gql import build_schema, graphql_blocking
from py_gql.lang import parse
from py_gql.utilities import MaxDepthValidationRule
from py_gql.validation import default_validator, validate_ast

schema = build_schema("type Query { a: Int, q: Query }")
root = {"a": 1}
root["q"] = root

bad = False

DOC = """
query A { a }
query B($b: Boolean!) {
  a
  q @skip(if: true) @include(if: $b) { q { q { q { a } } } }
}
"""
doc = parse(DOC)
assert not list(validate_ast(schema, doc)), "document is valid"

# Ground truth: B executed with either value of $b has depth 0.
for b in (True, False):
    result = graphql_blocking(schema, doc, operation_name="B", variables={"b": b}, root=root)
    print("B executed with b=%s ->" % b, result.response())
    assert result.response() == {"data": {"a": 1}}
    # ... and with the variable known the rule agrees:
    errors = list(MaxDepthValidationRule(1)(schema, doc, {"b": b}))
    print("   rule(1) with b known:", [str(e) for e in errors])
    assert not errors

# 1. The rule without variable values (static check of the document).
errors = [str(e) for e in MaxDepthValidationRule(1)(schema, doc, None)]
print("rule(1), no variables       :", errors)
if errors:
    bad = True

# 2. A request executing A (flat) is refused because of B.
result = graphql_blocking(
    schema,
    doc,
    operation_name="A",
    root=root,
    validators=[default_validator, MaxDepthValidationRule(1)],
)
print("request executing A         :", result.response())
if result.response() != {"data": {"a": 1}}:
    bad = True

# 3. Same with the operation name filter on B only (still no value for $b).
errors = [
    str(e) for e in MaxDepthValidationRule(1, operation_name="B")(schema, doc, {})
]
print("rule(1, operation_name='B') :", errors)
if errors:
    bad = True

# Symmetric case: @include(if: false) with an unknown @skip.
doc2 = parse(
    "query C($s: Boolean!) { a q @include(if: false) @skip(if: $s) { q { q { a } } } }"
)
errors = [str(e) for e in MaxDepthValidationRule(1)(schema, doc2, None)]
print("include(false)+skip(unknown):", errors)
if errors:
    bad = True

if bad:
    print(
        "VIOLATION: an error is reported for operations that never nest "
        "deeper than the limit"
    )
sys.exit(1 if bad else 0)

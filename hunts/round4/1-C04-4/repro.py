"""
C04 (introspection part of execution): `__InputValue.defaultValue` of a
String / ID default containing a control character is not a GraphQL literal.

The specification (4.5, __InputValue): defaultValue "may return a String
encoding (using the GraphQL language) of the default value". For

    type Query { f(s: String = "tab\\tbell\\u0007"): Int }

the introspection query returns '"tab\\tbell\\x07"' with the RAW U+0007
character: the lexer rejects that text (U+0007 is not a SourceCharacter), so
the reported default cannot be read back by any GraphQL tool. The very same
default one level down (inside an input object default) is rendered correctly
as "\\u0007" because that path goes through the printer.

Run: PYTHONPATH=/tmp/hunt-1/src /venv/bin/python repro.py
"""
import sys

from py_gql import build_schema, graphql_blocking
from py_gql.lang.parser import parse_value

schema = build_schema(
    '''
    input P { s: String = "tab\\tbell\\u0007" }
    type Query {
        top(s: String = "tab\\tbell\\u0007", id: ID = "\\u0001x"): Int
        nested(p: P = {s: "tab\\tbell\\u0007"}): Int
    }
    '''
)

QUERY = """
{ __type(name: "Query") { fields { name args { name defaultValue } } } }
"""
result = graphql_blocking(schema, QUERY)
assert not result.errors, result.errors

bad = False
for field in result.data["__type"]["fields"]:
    for arg in field["args"]:
        text = arg["defaultValue"]
        try:
            node = parse_value(text)
            status = "parses back"
        except Exception as err:  # GraphQLSyntaxError
            status = "VIOLATION: not a GraphQL literal (%r)" % err
            bad = True
        print("%s(%s:) defaultValue = %r -> %s" % (field["name"], arg["name"], text, status))

sys.exit(1 if bad else 0)

"""
C04: a validated operation using an OPTIONAL variable inside an input object
literal (or a list literal) is not executed per the specification when the
variable is not provided: the field gets a coercion error and null instead of
running its resolver with the field omitted (its default applied).

Spec (June 2018) 3.10 Input Objects, input coercion table:
    literal { a: $var, b: 123 }   variables {}   ->  { b: 123 }
and "if a variable is not provided a runtime value ... the input field is
treated as not present" -> default value of the input field applies.

Run: PYTHONPATH=/tmp/hunt-1/src /venv/bin/python repro.py
"""
import sys

from py_gql import build_schema, graphql_blocking, process_graphql_query
from py_gql.lang import parse
from py_gql.validation import validate_ast

schema = build_schema(
    """
    input In { a: Int = 7, b: Int }
    type Query {
        f(i: In): String
        sibling: Int
    }
    """
)

calls = []


@schema.resolver("Query.f")
def resolve_f(root, ctx, info, **args):
    calls.append(args)
    return repr(sorted(args["i"].items()))


@schema.resolver("Query.sibling")
def resolve_sibling(root, ctx, info):
    return 1


QUERY = "query ($v: Int) { f(i: {a: $v, b: 1}) sibling }"

bad = False

errors = list(validate_ast(schema, parse(QUERY)))
print("validation errors:", errors)
assert not errors, "the operation is valid"

for label, run in (
    ("graphql_blocking", lambda **kw: graphql_blocking(schema, QUERY, **kw)),
    (
        "process_graphql_query",
        lambda **kw: process_graphql_query(schema, QUERY, **kw),
    ),
):
    for variables, expected in (
        # variable provided: control, works
        ({"v": 2}, "[('a', 2), ('b', 1)]"),
        # variable explicitly null: a is null
        ({"v": None}, "[('a', None), ('b', 1)]"),
        # variable NOT provided: the field `a` is absent from the literal ->
        # its default (7) applies, b is 1.
        ({}, "[('a', 7), ('b', 1)]"),
    ):
        del calls[:]
        result = run(variables=variables)
        response = result.response()
        print(label, variables, "->", response)
        got = (response.get("data") or {}).get("f")
        if got != expected or response.get("errors"):
            print(
                "  VIOLATION: expected data.f == %r and no error, resolver "
                "calls: %r" % (expected, calls)
            )
            bad = True

sys.exit(1 if bad else 0)

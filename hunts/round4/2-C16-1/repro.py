"""
C16: AsyncIORuntime - a field whose start hook fired never gets its end hook
when the request is aborted while the field's task has been created but has
not run its first step yet (all resolvers are coroutine functions, no threads).

    { abort a { x y } }

`abort` raises ExecutionError (a response IS produced: data null + 1 error),
`a` needs one more loop iteration than `abort`.  `a` returns, its children
`a.x` / `a.y` get on_field_start, their coroutines are wrapped in tasks by
gather_values ... and the outer gather, which has just seen `abort` fail,
cancels `a` in the same loop iteration.  asyncio throws CancelledError into
the children *before their first step*: the body of
AsyncIORuntime.map_value._await_value (which holds the `else_=(BaseException,
on_error)` handler calling on_field_end) never runs, the resolver coroutines
are never awaited.

Exit 1 when a started field has no end hook, 0 otherwise.
"""
import asyncio
import sys
import warnings

from py_gql import build_schema, graphql
from py_gql.exc import ExecutionError
from py_gql.execution import Instrumentation

warnings.simplefilter("ignore", RuntimeWarning)

SDL = """
type A { x: Int y: Int }
type Query { abort: Int a: A }
"""


class Recorder(Instrumentation):
    def __init__(self):
        self.events = []

    def on_query_start(self):
        self.events.append("query+")

    def on_query_end(self):
        self.events.append("query-")

    def on_execution_start(self):
        self.events.append("exec+")

    def on_execution_end(self):
        self.events.append("exec-")

    def on_field_start(self, root, ctx, info):
        self.events.append("+" + ".".join(map(str, info.path)))

    def on_field_end(self, root, ctx, info):
        self.events.append("-" + ".".join(map(str, info.path)))


def run(abort_ticks, a_ticks):
    schema = build_schema(SDL)
    invoked = []

    async def abort(root, ctx, info):
        for _ in range(abort_ticks):
            await asyncio.sleep(0)
        raise ExecutionError("stop")

    async def a(root, ctx, info):
        for _ in range(a_ticks):
            await asyncio.sleep(0)
        return {}

    async def leaf(root, ctx, info):
        invoked.append(".".join(info.path))
        return 1

    schema.register_resolver("Query", "abort", abort)
    schema.register_resolver("Query", "a", a)
    schema.register_resolver("A", "x", leaf)
    schema.register_resolver("A", "y", leaf)

    rec = Recorder()
    loop = asyncio.new_event_loop()
    asyncio.set_event_loop(loop)
    try:
        result = loop.run_until_complete(
            graphql(schema, "{ abort a { x y } }", instrumentation=rec)
        )
    finally:
        loop.close()
    return rec.events, result.response(), invoked


violations = 0
for abort_ticks, a_ticks in [(0, 1), (1, 2), (3, 4), (0, 0), (2, 0), (0, 3)]:
    events, response, invoked = run(abort_ticks, a_ticks)
    started = [e[1:] for e in events if e.startswith("+")]
    ended = [e[1:] for e in events if e.startswith("-")]
    missing = [p for p in started if p not in ended]
    print("abort after %d ticks, a after %d ticks" % (abort_ticks, a_ticks))
    print("   response:", response)
    print("   hooks   :", events)
    print("   resolver bodies entered:", invoked)
    if missing:
        violations += 1
        print("   VIOLATION: on_field_start without on_field_end for", missing)

print()
if violations:
    print("%d schedule(s) leave started fields without their end hook" % violations)
    sys.exit(1)
print("every started field was ended")
sys.exit(0)

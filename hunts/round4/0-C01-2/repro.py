# C01: texts in which an empty string (two double quotes) is directly followed by
# another string are rejected, although the June-2018 grammar derives them.
#
# June 2018:  StringValue :: `"` StringCharacter* `"`  has no look-ahead restriction;
# the empty-string alternative with [lookahead != `"`] only exists since the
# October-2021 edition.  So a list holding four quotes derives as ListValue["" ""],
# exactly like the same two tokens written with a separator.  The lexer commits to a
# block string as soon as it sees three quotes and fails with NonTerminatedString.
#
# Run: PYTHONPATH=/tmp/hunt-0/src /venv/bin/python repro.py
import sys

from py_gql.exc import GraphQLSyntaxError
from py_gql.lang import parse, parse_value

bad = 0


def strip(node):
    d = node.to_dict()

    def rec(x):
        if isinstance(x, dict):
            return {k: rec(v) for k, v in x.items() if k != "loc"}
        if isinstance(x, list):
            return [rec(v) for v in x]
        return x

    return rec(d)


cases = [
    # (glued text, same token sequence written with separators, parser)
    ('[""""]', '["" ""]', parse_value),
    ('["""""x"]', '["" "" "x"]', parse_value),
    ('{ a(x: ["" """"]) }', '{ a(x: ["" "" ""]) }', parse),
    ('["a"""""]', '["a" "" ""]', parse_value),
]
for glued, spaced, fn in cases:
    expected = strip(fn(spaced))
    try:
        got = strip(fn(glued))
    except GraphQLSyntaxError as err:
        print("%-22r REJECTED: %s (position %d); %r is accepted" % (glued, err.message, err.position, spaced))
        bad += 1
    else:
        same = got == expected
        print("%-22r accepted, same tree as %r: %s" % (glued, spaced, same))
        if not same:
            bad += 1

if bad:
    print("VIOLATION: %d texts derivable from the June-2018 grammar were rejected" % bad)
    sys.exit(1)
print("ok")
